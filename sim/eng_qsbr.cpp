// qsbrsim -- C05 (QSBR never frees memory another registered thread may still
// reference) and C06 (every deferred deallocation runs exactly once, within
// three quiescent rounds; thread-count bookkeeping). Abstract programs over
// the real QSBR implementation, no tree.
#include <map>
#include <memory>
#include <set>

#include "global.hpp"
#include "heap.hpp"
#include "qsbr.hpp"

#include "sched.hpp"

namespace {
using namespace sim;

enum QKind {
  Q_PUBLISH = 1, Q_TAKE = 2, Q_TOUCH = 3, Q_DROP = 4, Q_RETIRE = 5, Q_QUIESCENT = 6, Q_PAUSE_RESUME = 7, Q_SPAWN = 8,
  Q_END_PAUSED = 9,   // last op: pause and exit paused
  Q_END_EXIT = 10,    // last op: exit at once, requests pending, no drain
  Q_END_DRAIN = 11,   // last op: take part in the drain rounds, then exit
  // counter-width probe (focus 55): one thread stalls holding a reference while another goes through 2^a quiescent states
  Q_WAIT_FLAG = 12, Q_SET_FLAG = 13, Q_MANY_QUIESCENT = 14
};
// Op fields: a = slot (publish/take/retire) or child thread index (spawn)

constexpr int kSlots = 8;
constexpr size_t kObjSize = 48;
constexpr uint64_t INF = UINT64_MAX;

struct TM {
  bool started = false;
  bool gone = false;  // will not take part in the drain (ended paused / exited at once)
  bool exit_started = false;  // left its body still registered: unregistration runs from the TLS destructor
  struct Reg { uint64_t start_ret, end_call; };
  std::vector<Reg> regs;
  struct QI { uint64_t call, ret; };
  std::vector<QI> qis;
  std::vector<void*> refs;
  int stage = 0;  // 0 running program, 1 arrived at drain, 1+r finished drain round r
};

struct Retired { uint64_t R; int X; bool freed; uint64_t seq; };

struct World {
  void* slot[kSlots] = {};
  std::vector<TM> tm;               // by sim thread id
  std::map<void*, Retired> retired;
  std::set<void*> objects;          // all blocks that are QSBR objects
  int lifecycle_inflight = 0;
  const Case* c = nullptr;
  bool drain_checked = false;
  int flags[4] = {};
};

World* W = nullptr;

void retire_call(void* p) {
  unodb::this_thread().on_next_epoch_deallocate(p
#ifdef UNODB_DETAIL_WITH_STATS
                                                ,
                                                kObjSize
#endif
#ifndef NDEBUG
                                                ,
                                                {}
#endif
  );
}

bool registered_at(const TM& t, uint64_t R) {
  for (auto& r : t.regs) if (r.start_ret < R && r.end_call > R) return true;
  return false;
}
bool passed(const TM& t, uint64_t R, uint64_t F) {
  for (auto& q : t.qis) if (q.call <= F && q.ret >= R) return true;
  return false;
}

// free notification from the allocation seam (called by the freeing thread, which holds the baton)
void on_free(Block& b) {
  if (!W) return;
  void* p = reinterpret_cast<void*>(b.addr);
  auto it = W->retired.find(p);
  if (it == W->retired.end()) {
    if (W->objects.count(p) && active()) die("qsbr-free-unretired", "object block #" + std::to_string(b.seq) + " freed although nobody retired it");
    return;
  }
  Retired& r = it->second;
  if (r.freed) die("double-free", "retired block #" + std::to_string(b.seq) + " freed twice");
  r.freed = true;
  if (!active()) return;
  const uint64_t F = stamp();
  for (size_t t = 1; t < W->tm.size(); t++) {
    const TM& m = W->tm[t];
    if (static_cast<int>(t) == r.X) continue;
    for (void* q : m.refs)
      if (q == p)
        die("qsbr-free-while-referenced", "block #" + std::to_string(b.seq) + " retired by t" + std::to_string(r.X) + " freed by t" + std::to_string(self()) +
                                              " while t" + std::to_string(t) + " holds a reference taken while it was linked");
    if (registered_at(m, r.R) && !passed(m, r.R, F))
      die("qsbr-early-free", "block #" + std::to_string(b.seq) + " retired by t" + std::to_string(r.X) + " at " + std::to_string(r.R) + " freed by t" + std::to_string(self()) + " at " +
                                 std::to_string(F) + " although t" + std::to_string(t) + ", registered at the time of the request, has not passed a quiescent state, pause or exit since");
  }
}

void check_thread_count(const char* where) {
  if (W->lifecycle_inflight != 0) return;
  for (size_t t = 1; t < W->tm.size(); t++)
    if (W->tm[t].exit_started && !is_finished(static_cast<int>(t))) return;  // an exit is in flight
  unsigned model = 0;
  for (size_t t = 1; t < W->tm.size(); t++)
    for (auto& r : W->tm[t].regs) if (r.end_call == INF) model++;
  unsigned real;
  {
    HooksOff off;
    real = unodb::qsbr_state::get_thread_count(unodb::qsbr::instance().get_state());
  }
  if (real != model)
    die("qsbr-thread-count", std::string("with no start/exit/pause/resume in flight (") + where + ") QSBR reports " + std::to_string(real) +
                                 " registered threads, the program has " + std::to_string(model));
}

void thread_body(int tid);

void drop_refs(TM& me) { me.refs.clear(); }

void do_quiescent(TM& me) {
  drop_refs(me);
  me.qis.push_back({stamp(), INF});
  unodb::this_thread().quiescent();
  me.qis.back().ret = stamp();
}

bool everyone_at(int stage) {
  for (size_t t = 1; t < W->tm.size(); t++) {
    const TM& m = W->tm[t];
    if (!m.started) continue;
    if (m.gone) { if (!is_finished(static_cast<int>(t))) return false; continue; }
    if (m.stage < stage) return false;
  }
  return true;
}

void barrier(int stage) {
  while (!everyone_at(stage)) point(K_SPIN, nullptr);
}

void drain(int tid, int opi) {
  TM& me = W->tm[static_cast<size_t>(tid)];
  drop_refs(me);
  me.stage = 1;
  barrier(1);
  // snapshot: everything retired so far precedes round 1 entirely
  std::vector<void*> before;
  for (auto& kv : W->retired) before.push_back(kv.first);
  for (int r = 1; r <= 3; r++) {
    op_begin(opi + r);
    do_quiescent(me);
    op_end();
    me.stage = 1 + r;
    barrier(1 + r);
  }
  for (void* p : before) {
    auto& rt = W->retired[p];
    if (!rt.freed)
      die("qsbr-not-freed-in-3-rounds", "block #" + std::to_string(rt.seq) + " retired by t" + std::to_string(rt.X) +
                                            " is still pending after three complete rounds in which every registered thread quiesced");
  }
}

void thread_body(int tid) {
  const auto& ops = W->c->threads[static_cast<size_t>(tid - 1)];
  TM& me = W->tm[static_cast<size_t>(tid)];
  bool ended = false;
  for (size_t i = 0; i < ops.size() && !ended; i++) {
    const Op& o = ops[i];
    const int oi = static_cast<int>(i);
    op_begin(oi);
    check_thread_count("operation boundary");
    switch (o.kind) {
      case Q_PUBLISH: {
        void* p = unodb::detail::allocate_aligned(kObjSize);
        memset(p, 0x5A, kObjSize);
        W->objects.insert(p);
        point(K_HARNESS, &W->slot[o.a]);
        if (W->slot[o.a] == nullptr) {
          W->slot[o.a] = p;
        } else {  // lost the race: never linked, never shared, free it directly
          W->objects.erase(p);
          unodb::detail::free_aligned(p);
        }
        break;
      }
      case Q_TAKE: {
        point(K_HARNESS, &W->slot[o.a]);
        if (void* p = W->slot[o.a]) me.refs.push_back(p);
        break;
      }
      case Q_TOUCH: {
        for (void* p : me.refs) {
          point(K_HARNESS, p);  // ledger check: touching a freed block is reported by the scheduler
          const auto* b = static_cast<const volatile unsigned char*>(p);
          if (b[0] != 0x5A || b[kObjSize - 1] != 0x5A) die("qsbr-object-corrupted", "referenced object no longer holds its canary");
        }
        break;
      }
      case Q_DROP: drop_refs(me); break;
      case Q_RETIRE: {
        point(K_HARNESS, &W->slot[o.a]);
        void* p = W->slot[o.a];
        if (p == nullptr) break;
        W->slot[o.a] = nullptr;  // unlinked: no new reference can be taken
        for (size_t k = me.refs.size(); k-- > 0;) if (me.refs[k] == p) me.refs.erase(me.refs.begin() + static_cast<long>(k));
        const Block* b = find_block(p);
        W->retired[p] = Retired{stamp(), tid, false, b ? b->seq : 0};
        retire_call(p);
        break;
      }
      case Q_QUIESCENT: do_quiescent(me); break;
      case Q_PAUSE_RESUME: {
        drop_refs(me);
        W->lifecycle_inflight++;
        const uint64_t call = stamp();
        me.qis.push_back({call, INF});
        if (!me.regs.empty()) me.regs.back().end_call = call;
        unodb::this_thread().qsbr_pause();
        me.qis.back().ret = stamp();
        W->lifecycle_inflight--;
        // stay paused for a while (o.b scheduling points): the others see a smaller set of registered threads meanwhile,
        // down to a single one
        // (o.c != 0: each of them yields, so that the other threads run on while this one is paused)
        for (int64_t k = 0; k <= o.b; k++) point(o.c ? K_SPIN : K_HARNESS, nullptr);
        check_thread_count("while paused");
        W->lifecycle_inflight++;
        unodb::this_thread().qsbr_resume();
        me.regs.push_back({stamp(), INF});
        W->lifecycle_inflight--;
        break;
      }
      case Q_SPAWN: {
        const int child = static_cast<int>(o.a) + 1;
        if (child <= 0 || static_cast<size_t>(child) >= W->tm.size() || W->tm[static_cast<size_t>(child)].started) break;
        W->lifecycle_inflight++;
        spawn(child, [child] { thread_body(child); }, true);
        TM& ch = W->tm[static_cast<size_t>(child)];
        ch.started = true;
        ch.regs.push_back({stamp(), INF});
        W->lifecycle_inflight--;
        break;
      }
      case Q_WAIT_FLAG: {
        while (W->flags[o.a & 3] == 0) point(K_SPIN, nullptr);
        break;
      }
      case Q_SET_FLAG: W->flags[o.a & 3] = 1; break;
      case Q_MANY_QUIESCENT: {
        // full speed, no scheduling points: nobody else can run meanwhile, which is the point (the other thread stays where
        // it is, registered and not quiescent); the monitor sees one long quiescent interval of this thread
        me.qis.push_back({stamp(), INF});
        {
          HooksOff off;
          const uint64_t n = (1ULL << o.a) + 8;
          for (uint64_t k = 0; k < n; k++) unodb::this_thread().quiescent();
        }
        me.qis.back().ret = stamp();
        break;
      }
      case Q_END_PAUSED: {
        drop_refs(me);
        me.gone = true;
        W->lifecycle_inflight++;
        const uint64_t call = stamp();
        me.qis.push_back({call, INF});
        if (!me.regs.empty()) me.regs.back().end_call = call;
        unodb::this_thread().qsbr_pause();
        me.qis.back().ret = stamp();
        W->lifecycle_inflight--;
        ended = true;
        break;
      }
      case Q_END_EXIT: {
        drop_refs(me);
        me.gone = true;
        ended = true;
        break;
      }
      case Q_END_DRAIN: {
        op_end();
        drain(tid, oi);
        ended = true;
        break;
      }
      default: break;
    }
    if (!ended || o.kind != Q_END_DRAIN) op_end();
  }
  drop_refs(me);
  if (!me.regs.empty() && me.regs.back().end_call == INF) {
    // thread exit with QSBR unpaused: unregistration runs from the TLS destructor, under the scheduler
    me.exit_started = true;
    const uint64_t call = stamp();
    me.qis.push_back({call, INF});
    me.regs.back().end_call = call;
    me.gone = me.gone || me.stage == 0;
  }
}

struct QsbrEngine final : Engine {
  const char* name() const override { return "qsbrsim"; }
  static bool probe_focus() { const char* fe = getenv("SIM_FOCUS"); return fe && atoi(fe) == 55; }
  uint64_t schedules_per_program() const override { return probe_focus() ? 1 : 32; }
  bool uses_buggify() const override { return !probe_focus(); }

  Case generate(uint64_t seed, const std::string& tier) override {
    Case c;
    c.engine = name();
    c.seed = seed;
    Rng r = stream(seed, S_WORKLOAD);
    const char* fe = getenv("SIM_FOCUS");
    const int focus = fe ? atoi(fe) : 5;
    c.set_knob("focus", focus);
    if (focus == 55) {
      // reader: quiesce, take a reference, stall (registered, not quiescent) until the writer is done, touch the reference.
      // writer: wait for the reference to be taken, retire the object, quiesce, go through 2^a further quiescent states.
      // Any counter of "quiescent states in this epoch" that wraps within 2^a makes the writer look like the last thread of
      // the epoch a second time and frees the object under the reader.
      static const int64_t exps[] = {32, 16, 8, 32, 33, 24, 31, 32};
      const int64_t a = tier == "thorough" ? exps[seed % 8] : (seed % 2 ? 16 : 32);
      auto op = [](int k, int64_t x) { Op o; o.kind = k; o.a = x; return o; };
      c.threads.push_back({op(Q_QUIESCENT, 0), op(Q_TAKE, 0), op(Q_SET_FLAG, 0), op(Q_WAIT_FLAG, 1), op(Q_TOUCH, 0), op(Q_DROP, 0), op(Q_END_EXIT, 0)});
      c.threads.push_back({op(Q_WAIT_FLAG, 0), op(Q_RETIRE, 0), op(Q_QUIESCENT, 0), op(Q_QUIESCENT, 0), op(Q_MANY_QUIESCENT, a), op(Q_SET_FLAG, 1), op(Q_END_EXIT, 0)});
      c.set_knob("prefilled_slots", 1);
      c.set_knob("initial_threads", 2);
      return c;
    }
    const auto tx = r.below(100);
    const int ninit = tx < 35 ? 2 : (tx < 80 ? 3 : 4);
    const int nchildren = r.chance(0.35) ? 1 : 0;
    const int maxsteps = tier == "thorough" ? 12 : 9;
    const int nslots = static_cast<int>(r.range(2, 4));
    c.set_knob("prefilled_slots", nslots);
    const bool drain = focus == 6 ? r.chance(0.8) : r.chance(0.4);
    int spawner = nchildren ? static_cast<int>(r.below(static_cast<uint64_t>(ninit))) : -1;
    // role templates (30 % of the programs): the shapes in which reclamation goes wrong are a reader that quiesces, takes a
    // reference and keeps it; a writer that retires and then leaves (pause or exit) so that its requests are orphaned; a
    // thread that is alone for a while because the others start out paused. Random tails follow.
    Rng tr = stream(seed, S_WORKLOAD + 48);
    const bool roles = tr.chance(0.3);
    // rounds template (a further 12 %): every thread retires something, all go through the same number of quiescent states
    // (so that the epoch really advances that many times when the threads run in step), then all but the first leave. Run
    // mostly under the lockstep strategy: requests age into the previous interval on several threads at once, and the leavers
    // hand them over around one and the same epoch change.
    const bool rounds = !roles && tr.chance(0.17);
    const int64_t round_q = tr.range(1, 3);
    c.set_knob("lockstep_pct", rounds ? 60 : (roles ? 12 : 5));
    for (int t = 0; t < ninit + nchildren; t++) {
      std::vector<Op> ops;
      if (rounds) {
        auto mk = [&](int k, int64_t a = 0, int64_t b = 0, int64_t c = 0) { Op o; o.kind = k; o.a = a; o.b = b; o.c = c; return o; };
        const int64_t slot = static_cast<int64_t>(tr.below(static_cast<uint64_t>(nslots)));
        const auto x = tr.below(100);
        ops.push_back(x < 75 ? mk(Q_RETIRE, slot) : (x < 90 ? mk(Q_TAKE, slot) : mk(Q_QUIESCENT)));
        for (int64_t k = tr.chance(0.75) ? round_q : tr.range(1, 3); k > 0; k--) ops.push_back(mk(Q_QUIESCENT));
        if (t == 0) { for (int64_t k = tr.range(1, 2); k > 0; k--) ops.push_back(mk(Q_QUIESCENT)); }
        else if (tr.chance(0.6)) ops.push_back(mk(Q_PAUSE_RESUME, 0, tr.range(0, 4), 1));
      }
      if (roles) {
        auto mk = [&](int k, int64_t a = 0, int64_t b = 0, int64_t c = 0) { Op o; o.kind = k; o.a = a; o.b = b; o.c = c; return o; };
        const int64_t slot = static_cast<int64_t>(tr.below(static_cast<uint64_t>(nslots)));
        const auto role = t == 0 ? 0 : tr.below(4);  // thread 1: the one that stays registered
        if (role != 0 && tr.chance(0.6)) ops.push_back(mk(Q_PAUSE_RESUME, 0, tr.range(4, 12), 1));  // start out paused, yielding
        if (role == 0) { for (int k = static_cast<int>(tr.range(1, 3)); k > 0; k--) ops.push_back(mk(Q_QUIESCENT)); }
        else if (role == 1) { if (tr.chance(0.7)) ops.push_back(mk(Q_QUIESCENT)); ops.push_back(mk(Q_TAKE, slot)); ops.push_back(mk(Q_TOUCH)); if (tr.chance(0.5)) ops.push_back(mk(Q_TOUCH)); }
        else if (role == 2) { if (tr.chance(0.4)) ops.push_back(mk(Q_QUIESCENT)); ops.push_back(mk(Q_RETIRE, slot)); if (tr.chance(0.6)) ops.push_back(mk(Q_PAUSE_RESUME, 0, tr.range(0, 6), 1)); }
        else {
          // late leaver: retires, lives through an epoch change or two (its requests age into the previous interval), then
          // leaves - several of these leaving around the same epoch change put several nodes on the orphan lists at once
          ops.push_back(mk(Q_RETIRE, slot));
          if (tr.chance(0.5)) { ops.push_back(mk(Q_PUBLISH, slot)); ops.push_back(mk(Q_RETIRE, slot)); }
          for (int k = static_cast<int>(tr.range(1, 2)); k > 0; k--) ops.push_back(mk(Q_QUIESCENT));
          if (tr.chance(0.5)) ops.push_back(mk(Q_PAUSE_RESUME, 0, tr.range(0, 4), 1));
        }
      }
      const int n = rounds ? static_cast<int>(r.range(0, 1)) : roles ? static_cast<int>(r.range(0, 4)) : static_cast<int>(r.range(3, maxsteps));
      bool spawned = false;
      for (int i = 0; i < n; i++) {
        Op o;
        const auto x = r.below(100);
        o.a = static_cast<int64_t>(r.below(static_cast<uint64_t>(nslots)));
        if (x < 18) o.kind = Q_TAKE;
        else if (x < 30) o.kind = Q_TOUCH;
        else if (x < 36) o.kind = Q_DROP;
        else if (x < 58) o.kind = Q_RETIRE;
        else if (x < 66) o.kind = Q_PUBLISH;
        else if (x < 86) o.kind = Q_QUIESCENT;
        else { o.kind = Q_PAUSE_RESUME; o.b = r.chance(0.5) ? 0 : r.range(1, 12); o.c = r.chance(0.5) ? 1 : 0; }
        if (t == spawner && !spawned && (i == n / 2 || r.chance(0.2))) { o.kind = Q_SPAWN; o.a = ninit; spawned = true; }
        ops.push_back(o);
      }
      if (t == spawner && !spawned) { Op o; o.kind = Q_SPAWN; o.a = ninit; ops.push_back(o); }
      Op e;
      const auto ex = r.below(100);
      if (drain) e.kind = ex < 70 ? Q_END_DRAIN : (ex < 85 ? Q_END_EXIT : Q_END_PAUSED);
      else e.kind = ex < 70 ? Q_END_EXIT : Q_END_PAUSED;
      ops.push_back(e);
      c.threads.push_back(std::move(ops));
    }
    c.set_knob("initial_threads", ninit);
    return c;
  }

  std::string describe(const Op& o) const override {
    switch (o.kind) {
      case Q_PUBLISH: return "publish new object in slot " + std::to_string(o.a);
      case Q_TAKE: return "take reference to the object linked in slot " + std::to_string(o.a);
      case Q_TOUCH: return "touch all held references";
      case Q_DROP: return "drop references";
      case Q_RETIRE: return "unlink slot " + std::to_string(o.a) + " + on_next_epoch_deallocate";
      case Q_QUIESCENT: return "quiescent()";
      case Q_PAUSE_RESUME: return "qsbr_pause(); stay paused for " + std::to_string(o.b + 1) + " scheduling points; qsbr_resume()";
      case Q_SPAWN: return "start qsbr_thread running thread #" + std::to_string(o.a + 1);
      case Q_END_PAUSED: return "qsbr_pause(); exit";
      case Q_END_EXIT: return "exit (requests pending)";
      case Q_END_DRAIN: return "3 drain rounds (quiescent() each, all registered threads in step); exit";
      case Q_WAIT_FLAG: return "wait for flag " + std::to_string(o.a);
      case Q_SET_FLAG: return "set flag " + std::to_string(o.a);
      case Q_MANY_QUIESCENT: return "2^" + std::to_string(o.a) + " + 8 quiescent states at full speed";
      default: return "?";
    }
  }

  bool remove_thread(Case& c, size_t t) override {
    // keep thread indices stable: SPAWN ops name their target by index
    for (auto& th : c.threads) for (auto& o : th) if (o.kind == Q_SPAWN) return false;
    if (static_cast<int64_t>(t) < c.knob("initial_threads", 0)) {
      if (c.knob("initial_threads", 0) <= 1) return false;
      if (!Engine::remove_thread(c, t)) return false;
      c.set_knob("initial_threads", c.knob("initial_threads", 0) - 1);
      return true;
    }
    return Engine::remove_thread(c, t);
  }

  Result run(const Case& c) override;
};

}  // namespace

namespace {

Result QsbrEngine::run(const Case& c) {
  Result res;
  run_begin(c, measured_ptr());
  World world;
  W = &world;
  world.c = &c;
  world.tm.resize(c.threads.size() + 1);
  set_alloc_callbacks(nullptr, on_free);
  auto& me0 = unodb::this_thread();
  const int nslots = static_cast<int>(c.knob("prefilled_slots", 2));
  for (int s = 0; s < nslots && s < kSlots; s++) {
    void* p = unodb::detail::allocate_aligned(kObjSize);
    memset(p, 0x5A, kObjSize);
    world.objects.insert(p);
    world.slot[s] = p;
  }
  const int ninit = static_cast<int>(c.knob("initial_threads", static_cast<int64_t>(c.threads.size())));
  for (int t = 1; t <= ninit && static_cast<size_t>(t) <= c.threads.size(); t++) {
    spawn(t, [t] { thread_body(t); }, true);
    world.tm[static_cast<size_t>(t)].started = true;
    world.tm[static_cast<size_t>(t)].regs.push_back({0, INF});
  }
  me0.qsbr_pause();
  concurrent_begin();
  join_all();
  // all threads have exited; the remaining thread resumes and quiesces twice: nothing may stay pending
  me0.qsbr_resume();
  me0.quiescent();
  me0.quiescent();
  concurrent_end();
  auto fail = [&](const std::string& cls, const std::string& d) { if (res.ok) { res.ok = false; res.vclass = cls; res.detail = d; } };
  auto& q = unodb::qsbr::instance();
  if (!q.previous_interval_orphaned_requests_empty() || !q.current_interval_orphaned_requests_empty() ||
      !me0.previous_interval_requests_empty() || !me0.current_interval_requests_empty())
    fail("qsbr-not-drained", "requests still pending after all other threads unregistered and the last thread quiesced twice");
  for (auto& kv : world.retired)
    if (!kv.second.freed)
      fail("qsbr-lost-request", "block #" + std::to_string(kv.second.seq) + " retired by t" + std::to_string(kv.second.X) + " was never freed");
  {
    const unsigned real = unodb::qsbr_state::get_thread_count(q.get_state());
    if (real != 1) fail("qsbr-thread-count", "after all threads exited QSBR reports " + std::to_string(real) + " registered threads instead of 1");
  }
  // objects never retired are still linked: release them
  set_alloc_callbacks(nullptr, nullptr);
  for (int s = 0; s < kSlots; s++)
    if (world.slot[s]) { unodb::detail::free_aligned(world.slot[s]); world.slot[s] = nullptr; }
  {
    int nb = 0;
    live_bytes(&nb);
    if (nb != 0) fail("leak", std::to_string(nb) + " blocks still allocated at the end of the run");
  }
  if (const std::string bad = qsbr_idle_selftest(); !bad.empty()) fail("qsbr-state-inconsistent", bad);
  W = nullptr;
  run_end(res);
  res.nontrivial = false;
  for (auto& e : res.realised) if (e.hook > 1) res.nontrivial = true;
  return res;
}

}  // namespace

namespace sim {
Engine* make_qsbr_engine() { return new QsbrEngine(); }
}  // namespace sim
