// locksim -- C07: optimistic lock: validated reads consistent, writers
// exclusive, obsolete final. 2-3 threads on one unodb::optimistic_lock that
// guards three in_critical_section<uint64_t> fields (writer invariant a==b==c).
#include <memory>

#include "global.hpp"
#include "optimistic_lock.hpp"

#include "sched.hpp"

namespace {
using namespace sim;

enum LKind { L_READ = 1, L_READ_MID = 2, L_WRITE = 3, L_WRITE_EXPLICIT = 4, L_REHYDRATE = 5, L_OBSOLETE = 6, L_READ_MOVED = 7, L_WRAP_PROBE = 8 };
// L_WRAP_PROBE (a = log2 of the number of write cycles): one thread keeps a read section open across 2^a complete write
// cycles of the same lock, executed at full speed with hooks off; the section must then fail its check and its upgrade.
// Probes the width of the version arithmetic (a version that recurs after 2^30 or 2^32 cycles validates a stale section).
// L_READ_MOVED: the section is move-assigned into a default-constructed read_critical_section (as the tree's descent loops do)
// and all reads and the validation go through the destination object

struct Shared {
  unodb::optimistic_lock lock;
  unodb::in_critical_section<std::uint64_t> a{0}, b{0}, c{0};
};

// One recorded lock-level event. Stamps: *1 = taken immediately before the
// call, *2 = immediately after it returned. The access itself happened
// somewhere strictly between the two.
struct Ev {
  int thread = 0, op = 0, kind = 0;
  uint64_t open1 = 0, open2 = 0;  // try_read_lock / rehydrate
  uint64_t orig_open2 = 0;         // rehydrate: when the section that produced the saved version was opened
  bool opened = false;            // !must_restart
  // validations (check / try_read_unlock), in order
  struct Val { uint64_t v1, v2; bool ok; uint64_t a, b, c; bool have_abc; };
  std::vector<Val> vals;
  // upgrade
  bool tried_upgrade = false, upgraded = false;
  uint64_t up1 = 0, up2 = 0;
  // values seen under the write lock before writing
  bool wsaw = false; uint64_t wa = 0, wb = 0, wc = 0;
  uint64_t written = 0;
  // release
  uint64_t rel1 = 0, rel2 = 0;
  bool obsoleted = false;
};

struct LockEngine final : Engine {
  const char* name() const override { return "locksim"; }
  uint64_t schedules_per_program() const override { const char* fe = getenv("SIM_FOCUS"); return fe && atoi(fe) == 77 ? 1 : 16; }

  Case generate(uint64_t seed, const std::string& tier) override {
    Case c;
    c.engine = name();
    c.seed = seed;
    Rng r = stream(seed, S_WORKLOAD);
    const char* fe = getenv("SIM_FOCUS");
    if (fe && atoi(fe) == 77) {
      static const int64_t exps[] = {30, 31, 32, 30, 32, 31, 33, 30};
      Op o; o.kind = L_WRAP_PROBE; o.a = tier == "thorough" ? exps[seed % 8] : 30;
      c.threads.push_back({o});
      return c;
    }
    const int nthreads = static_cast<int>(r.range(2, 3));
    const int maxops = tier == "thorough" ? 6 : 5;
    const bool allow_obsolete = r.chance(0.6);
    for (int t = 0; t < nthreads; t++) {
      std::vector<Op> ops;
      const int n = static_cast<int>(r.range(2, maxops));
      for (int i = 0; i < n; i++) {
        Op o;
        const auto x = r.below(100);
        if (x < 22) o.kind = L_READ;
        else if (x < 30) o.kind = L_READ_MOVED;
        else if (x < 45) o.kind = L_READ_MID;
        else if (x < 72) o.kind = L_WRITE;
        else if (x < 80) o.kind = L_WRITE_EXPLICIT;
        else if (x < 90) o.kind = L_REHYDRATE;
        else o.kind = allow_obsolete ? L_OBSOLETE : L_WRITE;
        o.a = (static_cast<int64_t>(t + 1) << 16) | (i + 1);  // unique written value
        ops.push_back(o);
      }
      c.threads.push_back(std::move(ops));
    }
    return c;
  }

  std::string describe(const Op& o) const override {
    switch (o.kind) {
      case L_WRAP_PROBE: return "read section kept open across 2^" + std::to_string(o.a) + " write cycles, then check + upgrade";
      case L_READ: return "read-section";
      case L_READ_MOVED: return "read-section-move-assigned-to-another-object";
      case L_READ_MID: return "read-section-with-interim-check";
      case L_WRITE: return "upgrade+write(" + std::to_string(o.a) + ")+guard-dtor-unlock";
      case L_WRITE_EXPLICIT: return "upgrade+write(" + std::to_string(o.a) + ")+unlock()";
      case L_REHYDRATE: return "rehydrate-last-version+check";
      case L_OBSOLETE: return "upgrade+unlock_and_obsolete";
      default: return "?";
    }
  }

  static void thread_body(Shared* sh, const std::vector<Op>* ops, std::vector<Ev>* out, int tid) {
    using unodb::optimistic_lock;
    unodb::version_tag_type last_tag = 0;
    uint64_t last_tag_open2 = 0;
    bool have_tag = false;
    for (size_t i = 0; i < ops->size(); i++) {
      const Op& o = (*ops)[i];
      op_begin(static_cast<int>(i));
      Ev ev;
      ev.thread = tid; ev.op = static_cast<int>(i); ev.kind = o.kind;
      auto validate = [&](bool unlock, optimistic_lock::read_critical_section& rcs, bool have, uint64_t a, uint64_t b, uint64_t c2) {
        Ev::Val v{};
        v.v1 = stamp();
        v.ok = unlock ? rcs.try_read_unlock() : rcs.check();
        v.v2 = stamp();
        v.a = a; v.b = b; v.c = c2; v.have_abc = have;
        ev.vals.push_back(v);
        return v.ok;
      };
      switch (o.kind) {
        case L_READ:
        case L_READ_MID: {
          ev.open1 = stamp();
          auto rcs = sh->lock.try_read_lock();
          ev.open2 = stamp();
          ev.opened = !rcs.must_restart();
          if (!ev.opened) break;
          last_tag = rcs.get(); have_tag = true; last_tag_open2 = ev.open2;
          const uint64_t a = sh->a.load();
          if (o.kind == L_READ_MID) {
            if (!validate(false, rcs, false, a, 0, 0)) break;
          }
          const uint64_t b = sh->b.load();
          const uint64_t c2 = sh->c.load();
          validate(true, rcs, true, a, b, c2);
          break;
        }
        case L_WRAP_PROBE: {
          HooksOff off;
          // one completed write first, so that the section is opened on a lock with history
          { auto w0 = sh->lock.try_read_lock(); optimistic_lock::write_guard g0{std::move(w0)}; sh->a = 1; sh->b = 1; sh->c = 1; }
          auto held = sh->lock.try_read_lock();
          auto held2 = sh->lock.rehydrate_read_lock(held.get());
          const uint64_t cycles = 1ULL << o.a;
          for (uint64_t n = 0; n < cycles; n++) {
            auto rcs = sh->lock.try_read_lock();
            optimistic_lock::write_guard wg{std::move(rcs)};
            sh->a = n + 2;
          }
          const uint64_t v = sh->a.load();
          sh->b = v; sh->c = v;
          if (held.check()) die("lock-version-wrap", "a read section kept open across 2^" + std::to_string(o.a) + " complete write cycles of its lock still passes check(): the lock version recurred");
          optimistic_lock::write_guard up{std::move(held2)};
          if (!up.must_restart()) die("lock-version-wrap", "a read section kept open across 2^" + std::to_string(o.a) + " complete write cycles was upgraded to a write guard: the lock version recurred");
          break;
        }
        case L_READ_MOVED: {
          ev.open1 = stamp();
          auto first = sh->lock.try_read_lock();
          ev.open2 = stamp();
          ev.opened = !first.must_restart();
          if (!ev.opened) break;
          last_tag = first.get(); have_tag = true; last_tag_open2 = ev.open2;
          const uint64_t a = sh->a.load();
          optimistic_lock::read_critical_section rcs;
          rcs = std::move(first);
          if (rcs.must_restart()) die("lock-move-lost-section", "a read section that was open became invalid by move assignment");
          const uint64_t b = sh->b.load();
          const uint64_t c2 = sh->c.load();
          validate(true, rcs, true, a, b, c2);
          break;
        }
        case L_REHYDRATE: {
          if (!have_tag) break;
          ev.open1 = stamp();
          auto rcs = sh->lock.rehydrate_read_lock(last_tag);
          ev.open2 = stamp();
          ev.opened = true;
          ev.orig_open2 = last_tag_open2;
          // A rehydrated section is only known to be valid once check() says so.
          if (!validate(false, rcs, false, 0, 0, 0)) break;
          const uint64_t a = sh->a.load();
          const uint64_t b = sh->b.load();
          const uint64_t c2 = sh->c.load();
          validate(true, rcs, true, a, b, c2);
          break;
        }
        case L_WRITE:
        case L_WRITE_EXPLICIT:
        case L_OBSOLETE: {
          ev.open1 = stamp();
          auto rcs = sh->lock.try_read_lock();
          ev.open2 = stamp();
          ev.opened = !rcs.must_restart();
          if (!ev.opened) break;
          last_tag = rcs.get(); have_tag = true; last_tag_open2 = ev.open2;
          ev.tried_upgrade = true;
          ev.up1 = stamp();
          optimistic_lock::write_guard wg{std::move(rcs)};
          ev.up2 = stamp();
          ev.upgraded = !wg.must_restart();
          if (!ev.upgraded) break;
          ev.wsaw = true;
          ev.wa = sh->a.load(); ev.wb = sh->b.load(); ev.wc = sh->c.load();
          if (o.kind != L_OBSOLETE) {
            const auto v = static_cast<uint64_t>(o.a);
            sh->a = v; sh->b = v; sh->c = v;
            ev.written = v;
          }
          if (o.kind == L_WRITE_EXPLICIT) {
            ev.rel1 = stamp(); wg.unlock(); ev.rel2 = stamp();
          } else if (o.kind == L_OBSOLETE) {
            ev.rel1 = stamp(); wg.unlock_and_obsolete(); ev.rel2 = stamp();
            ev.obsoleted = true;
          } else {
            ev.rel1 = stamp();
            // guard destructor releases at scope exit; rel2 is stamped below
          }
          break;
        }
        default: break;
      }
      // write_guard of L_WRITE went out of scope at the end of the case block
      if (ev.kind == L_WRITE && ev.upgraded) ev.rel2 = stamp();
      note(static_cast<uint64_t>(ev.opened) | (static_cast<uint64_t>(ev.upgraded) << 1) |
           (ev.vals.empty() ? 0 : (static_cast<uint64_t>(ev.vals.back().ok) << 2)));
      out->push_back(std::move(ev));
      op_end();
    }
  }

  Result run(const Case& c) override {
    Result res;
    run_begin(c, measured_ptr());
    auto sh = std::make_unique<Shared>();
    name_region(sh.get(), sizeof(Shared), 2);
    std::vector<std::vector<Ev>> evs(c.threads.size());
    concurrent_begin();
    for (size_t t = 0; t < c.threads.size(); t++) {
      Shared* shp = sh.get();
      const auto* ops = &c.threads[t];
      auto* out = &evs[t];
      const int tid = static_cast<int>(t) + 1;
      spawn(tid, [shp, ops, out, tid] { thread_body(shp, ops, out, tid); }, false);
    }
    join_all();
    concurrent_end();
#ifndef NDEBUG
    // every section was closed by check/try_read_unlock/upgrade or by its destructor: the debug-only count of open read
    // sections must be back to zero (the tree asserts exactly this when a node is deallocated)
    sh->lock.check_on_dealloc();
#endif
    check(evs, res);
    run_end(res);
    return res;
  }

  static void fail(Result& r, const std::string& cls, const std::string& d) {
    if (!r.ok) return;
    r.ok = false; r.vclass = cls; r.detail = d;
  }
  static std::string id(const Ev& e) { return "t" + std::to_string(e.thread) + ".op" + std::to_string(e.op); }

  void check(const std::vector<std::vector<Ev>>& evs, Result& r) {
    std::vector<const Ev*> all, writers;
    for (auto& v : evs) for (auto& e : v) { all.push_back(&e); if (e.upgraded) writers.push_back(&e); }
    // (1) writer exclusion: cores [up2, rel1] of two successful guards never intersect
    for (size_t i = 0; i < writers.size(); i++)
      for (size_t k = i + 1; k < writers.size(); k++) {
        const Ev *x = writers[i], *y = writers[k];
        if (x->up2 <= y->rel1 && y->up2 <= x->rel1)
          fail(r, "lock-two-writers", "write guards of " + id(*x) + " and " + id(*y) + " provably overlap");
      }
    // a writer must see a==b==c under its guard
    for (auto* w : writers)
      if (w->wsaw && !(w->wa == w->wb && w->wb == w->wc))
        fail(r, "lock-writer-saw-torn", id(*w) + " saw " + std::to_string(w->wa) + "," + std::to_string(w->wb) + "," + std::to_string(w->wc) + " under its write guard");
    // first obsoletion that has returned
    uint64_t obs_done = UINT64_MAX; const Ev* obs = nullptr;
    for (auto* w : writers) if (w->obsoleted && w->rel2 < obs_done) { obs_done = w->rel2; obs = w; }
    for (auto* e : all) {
      // (4) obsolete is final
      if (obs && e != obs) {
        if (e->kind != L_REHYDRATE && e->open1 > obs_done && e->opened)
          fail(r, "lock-obsolete-not-final", id(*e) + " opened a read section after " + id(*obs) + " had obsoleted the lock");
        if (e->tried_upgrade && e->up1 > obs_done && e->upgraded)
          fail(r, "lock-obsolete-not-final", id(*e) + " upgraded after obsoletion");
        for (auto& v : e->vals)
          if (v.v1 > obs_done && v.ok)
            fail(r, "lock-obsolete-not-final", id(*e) + " validated a section after " + id(*obs) + " had obsoleted the lock");
      }
      if (!e->opened) {
        // a read lock may only be refused on an obsolete lock: some obsoletion must have begun before the refusal returned
        if ((e->kind != L_REHYDRATE) && e->open1 != 0) {
          bool any = false;
          for (auto* w : writers) if (w->obsoleted && w->rel1 < e->open2) any = true;
          if (!any) fail(r, "lock-spurious-obsolete", id(*e) + " was refused a read lock though nobody obsoleted the lock");
        }
        continue;
      }
      // (2) validated sections
      for (auto& v : e->vals) {
        if (!v.ok) continue;
        // extent provably inside the section: [open2, v1]; rehydrated sections
        // claim validity of the *original* version, so their extent for the
        // overlap test is [open2, v1] as well (reads happen after open2).
        for (auto* w : writers) {
          if (w == e) continue;
          if (w->up2 <= v.v1 && e->open2 <= w->rel1)
            fail(r, "lock-validated-overlap", "section of " + id(*e) + " validated although write guard of " + id(*w) + " was provably held inside it");
        }
        if (e->kind == L_REHYDRATE) {
          // the saved version must still be current: no write guard acquired provably between the
          // opening of the original section and this validation
          for (auto* w : writers)
            if (w->up1 > e->orig_open2 && w->up2 < v.v1)
              fail(r, "lock-rehydrate-stale", id(*e) + " validated a saved version although " + id(*w) + " acquired the lock since it was taken");
        }
        if (v.have_abc) {
          if (!(v.a == v.b && v.b == v.c)) {
            fail(r, "lock-torn-read", id(*e) + " validated a torn snapshot " + std::to_string(v.a) + "," + std::to_string(v.b) + "," + std::to_string(v.c));
            continue;
          }
          // snapshot value: initial 0 or written by W; no other completed writer provably between W and the section
          const Ev* src = nullptr;
          if (v.a != 0) {
            for (auto* w : writers) if (w->written == v.a && w->kind != L_OBSOLETE) src = w;
            if (!src) { fail(r, "lock-garbage-read", id(*e) + " read value " + std::to_string(v.a) + " nobody wrote"); continue; }
            if (src->up1 > v.v2) fail(r, "lock-read-from-future", id(*e) + " read a value written after the section ended");
          }
          const uint64_t src_end = src ? src->rel2 : 0;
          for (auto* w : writers) {
            if (w == src || w->kind == L_OBSOLETE || w == e) continue;
            if (w->up1 > src_end && w->rel2 < e->open1)
              fail(r, "lock-stale-read", id(*e) + " read " + std::to_string(v.a) + " although " + id(*w) + " completed a later write before the section opened");
          }
        }
      }
      // (3) upgrade succeeds only if nobody acquired the lock since the section opened
      if (e->upgraded)
        for (auto* w : writers) {
          if (w == e) continue;
          if (w->up1 > e->open2 && w->up2 < e->up1)
            fail(r, "lock-upgrade-after-writer", id(*e) + " upgraded although " + id(*w) + " acquired the lock after the section was opened");
        }
    }
    r.nontrivial = true;
  }
};

}  // namespace

namespace sim {
Engine* make_lock_engine() { return new LockEngine(); }
}  // namespace sim
