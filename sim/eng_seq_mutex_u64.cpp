#include "eng_seq.hpp"

namespace sim::seq {
Outcome run_mutex_u64(const Case& c, int focus, int nonrep_fd) { return run_one<unodb::mutex_db<std::uint64_t, unodb::value_view>>(c, focus, nonrep_fd); }
}  // namespace sim::seq
