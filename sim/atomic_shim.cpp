// Compiler-inserted scheduling points. In the "hookall" build configurations the unodb translation units are compiled
// with clang's -fsanitize=thread instrumentation restricted to atomic operations, and linked against THIS file instead of
// the ThreadSanitizer runtime: every std::atomic operation in the library - whether or not somebody remembered to put a
// UNODB_DETAIL_VERIF_POINT in front of it - calls one of the functions below, which reports a scheduling point to the
// simulator and then performs the operation. A change that adds, splits or moves an atomic access (a load+store pair where
// there was an exchange, a new flag, a new counter used for a decision) is therefore interleaved like everything else.
// This file itself is compiled without instrumentation.
#include <cstdint>

extern "C" void unodb_verif_point(int kind, const void* addr) noexcept;

namespace {
constexpr int K_AUTO_LOAD = 14, K_AUTO_STORE = 15, K_AUTO_RMW = 16;
inline int mo(int m) {
  switch (m) {
    case 0: return __ATOMIC_RELAXED;
    case 1: return __ATOMIC_CONSUME;
    case 2: return __ATOMIC_ACQUIRE;
    case 3: return __ATOMIC_RELEASE;
    case 4: return __ATOMIC_ACQ_REL;
    default: return __ATOMIC_SEQ_CST;
  }
}
inline int load_mo(int m) { const int x = mo(m); return (x == __ATOMIC_RELEASE || x == __ATOMIC_ACQ_REL) ? __ATOMIC_SEQ_CST : x; }
inline int store_mo(int m) { const int x = mo(m); return (x == __ATOMIC_ACQUIRE || x == __ATOMIC_ACQ_REL || x == __ATOMIC_CONSUME) ? __ATOMIC_SEQ_CST : x; }
inline int fail_mo(int m) { const int x = mo(m); return (x == __ATOMIC_RELEASE || x == __ATOMIC_ACQ_REL) ? __ATOMIC_ACQUIRE : x; }
}  // namespace

#define SHIM_FOR_TYPE(N, T)                                                                                                   \
  extern "C" T __tsan_atomic##N##_load(const volatile T* a, int m) {                                                           \
    unodb_verif_point(K_AUTO_LOAD, const_cast<const T*>(a));                                                                   \
    return __atomic_load_n(a, load_mo(m));                                                                                     \
  }                                                                                                                            \
  extern "C" void __tsan_atomic##N##_store(volatile T* a, T v, int m) {                                                         \
    unodb_verif_point(K_AUTO_STORE, const_cast<const T*>(a));                                                                  \
    __atomic_store_n(a, v, store_mo(m));                                                                                       \
  }                                                                                                                            \
  extern "C" T __tsan_atomic##N##_exchange(volatile T* a, T v, int m) {                                                         \
    unodb_verif_point(K_AUTO_RMW, const_cast<const T*>(a));                                                                    \
    return __atomic_exchange_n(a, v, mo(m));                                                                                   \
  }                                                                                                                            \
  extern "C" T __tsan_atomic##N##_fetch_add(volatile T* a, T v, int m) {                                                        \
    unodb_verif_point(K_AUTO_RMW, const_cast<const T*>(a));                                                                    \
    return __atomic_fetch_add(a, v, mo(m));                                                                                    \
  }                                                                                                                            \
  extern "C" T __tsan_atomic##N##_fetch_sub(volatile T* a, T v, int m) {                                                        \
    unodb_verif_point(K_AUTO_RMW, const_cast<const T*>(a));                                                                    \
    return __atomic_fetch_sub(a, v, mo(m));                                                                                    \
  }                                                                                                                            \
  extern "C" T __tsan_atomic##N##_fetch_and(volatile T* a, T v, int m) {                                                        \
    unodb_verif_point(K_AUTO_RMW, const_cast<const T*>(a));                                                                    \
    return __atomic_fetch_and(a, v, mo(m));                                                                                    \
  }                                                                                                                            \
  extern "C" T __tsan_atomic##N##_fetch_or(volatile T* a, T v, int m) {                                                         \
    unodb_verif_point(K_AUTO_RMW, const_cast<const T*>(a));                                                                    \
    return __atomic_fetch_or(a, v, mo(m));                                                                                     \
  }                                                                                                                            \
  extern "C" T __tsan_atomic##N##_fetch_xor(volatile T* a, T v, int m) {                                                        \
    unodb_verif_point(K_AUTO_RMW, const_cast<const T*>(a));                                                                    \
    return __atomic_fetch_xor(a, v, mo(m));                                                                                    \
  }                                                                                                                            \
  extern "C" T __tsan_atomic##N##_fetch_nand(volatile T* a, T v, int m) {                                                       \
    unodb_verif_point(K_AUTO_RMW, const_cast<const T*>(a));                                                                    \
    return __atomic_fetch_nand(a, v, mo(m));                                                                                   \
  }                                                                                                                            \
  extern "C" int __tsan_atomic##N##_compare_exchange_strong(volatile T* a, T* c, T v, int m, int fm) {                          \
    unodb_verif_point(K_AUTO_RMW, const_cast<const T*>(a));                                                                    \
    return __atomic_compare_exchange_n(a, c, v, false, mo(m), fail_mo(fm));                                                    \
  }                                                                                                                            \
  extern "C" int __tsan_atomic##N##_compare_exchange_weak(volatile T* a, T* c, T v, int m, int fm) {                            \
    unodb_verif_point(K_AUTO_RMW, const_cast<const T*>(a));                                                                    \
    return __atomic_compare_exchange_n(a, c, v, false, mo(m), fail_mo(fm)); /* spurious failures come from the buggify seam */ \
  }                                                                                                                            \
  extern "C" T __tsan_atomic##N##_compare_exchange_val(volatile T* a, T c, T v, int m, int fm) {                                \
    unodb_verif_point(K_AUTO_RMW, const_cast<const T*>(a));                                                                    \
    __atomic_compare_exchange_n(a, &c, v, false, mo(m), fail_mo(fm));                                                          \
    return c;                                                                                                                  \
  }

SHIM_FOR_TYPE(8, std::uint8_t)
SHIM_FOR_TYPE(16, std::uint16_t)
SHIM_FOR_TYPE(32, std::uint32_t)
SHIM_FOR_TYPE(64, std::uint64_t)

extern "C" void __tsan_atomic_thread_fence(int m) { __atomic_thread_fence(mo(m)); }
extern "C" void __tsan_atomic_signal_fence(int m) { __atomic_signal_fence(mo(m)); }
extern "C" void __tsan_init() {}
// not emitted with the instrumentation options used (-tsan-instrument-memory-accesses=0 etc.); defined for robustness
extern "C" void __tsan_func_entry(void*) {}
extern "C" void __tsan_func_exit() {}
extern "C" void __tsan_read1(void*) {}
extern "C" void __tsan_read2(void*) {}
extern "C" void __tsan_read4(void*) {}
extern "C" void __tsan_read8(void*) {}
extern "C" void __tsan_read16(void*) {}
extern "C" void __tsan_write1(void*) {}
extern "C" void __tsan_write2(void*) {}
extern "C" void __tsan_write4(void*) {}
extern "C" void __tsan_write8(void*) {}
extern "C" void __tsan_write16(void*) {}
extern "C" void __tsan_unaligned_read2(void*) {}
extern "C" void __tsan_unaligned_read4(void*) {}
extern "C" void __tsan_unaligned_read8(void*) {}
extern "C" void __tsan_unaligned_read16(void*) {}
extern "C" void __tsan_unaligned_write2(void*) {}
extern "C" void __tsan_unaligned_write4(void*) {}
extern "C" void __tsan_unaligned_write8(void*) {}
extern "C" void __tsan_unaligned_write16(void*) {}
extern "C" void __tsan_vptr_update(void**, void*) {}
extern "C" void __tsan_vptr_read(void**) {}
extern "C" void __tsan_read_range(void*, unsigned long) {}
extern "C" void __tsan_write_range(void*, unsigned long) {}
// unodb's own ThreadSanitizer annotations (qsbr.cpp uses them instead of fences when it sees the instrumentation)
extern "C" void __tsan_acquire(void*) {}
extern "C" void __tsan_release(void*) {}
