#include "eng_mutex.hpp"

namespace sim::mtx {
Result run_kv(const Case& c, const std::vector<uint32_t>* measured) { return Runner<unodb::key_view>::run(c, measured); }
}  // namespace sim::mtx
