// Reference models: M2 path-compressed radix tree shape, per-key
// linearizability checker (Wing-Gong / Lowe with memoisation), value
// encoding shared by the engines.
#pragma once

#include <array>
#include <cstdint>
#include <map>
#include <set>
#include <string>
#include <unordered_set>
#include <vector>

#include "core.hpp"

namespace sim {

// ------------------------------------------------------------ values -----
// Self-describing value: bytes 0..7 = id (little endian) when len >= 8, the
// rest a pattern that depends on (id, position). Shorter values: pattern only.
inline unsigned char value_byte(uint64_t id, size_t i) {
  uint64_t x = id * 0x9E3779B97F4A7C15ULL + i * 0xBF58476D1CE4E5B9ULL;
  x ^= x >> 29;
  return static_cast<unsigned char>(x * 0x94D049BB133111EBULL >> 56);
}
inline std::string make_value(uint64_t id, size_t len) {
  std::string v(len, '\0');
  for (size_t i = 0; i < len; i++) v[i] = static_cast<char>(value_byte(id, i));
  if (len >= 8) for (size_t i = 0; i < 8; i++) v[i] = static_cast<char>((id >> (8 * i)) & 0xff);
  return v;
}
// Returns the id if `bytes` is exactly make_value(id, len) for the id it names; 0 otherwise.
inline uint64_t parse_value(const void* p, size_t len) {
  if (len < 8) return 0;
  const auto* b = static_cast<const unsigned char*>(p);
  uint64_t id = 0;
  for (size_t i = 0; i < 8; i++) id |= static_cast<uint64_t>(b[i]) << (8 * i);
  for (size_t i = 8; i < len; i++) if (b[i] != value_byte(id, i)) return 0;
  return id == 0 ? 0 : id;
}

// Identity of value bytes read back from an index: the id for self-describing values (>= 8 bytes), a fold of length and
// bytes for shorter ones (two inserts of equal short values are interchangeable for the checkers), UINT64_MAX for garbage.
inline uint64_t value_identity(const void* p, size_t len) {
  if (len >= 8) { const uint64_t id = parse_value(p, len); return id == 0 ? UINT64_MAX : id; }
  const auto* b = static_cast<const unsigned char*>(p);
  uint64_t h = 0x4000000000000000ULL | (static_cast<uint64_t>(len) << 56);
  for (size_t i = 0; i < len; i++) h ^= static_cast<uint64_t>(b[i]) << (8 * i);
  return h;
}
inline uint64_t value_identity_of(uint64_t id, size_t len) {
  if (len >= 8) return id;
  const std::string v = make_value(id, len);
  return value_identity(v.data(), v.size());
}

// ---------------------------------------------------------------- M2 -----
struct Shape {
  uint64_t leaves = 0;
  std::array<uint64_t, 4> inodes{};  // I4, I16, I48, I256
  bool representable = true;         // every compressed path <= 7 bytes
  bool prefix_free = true;
  unsigned max_path = 0;
  uint64_t total_inodes() const { return inodes[0] + inodes[1] + inodes[2] + inodes[3]; }
  bool operator==(const Shape& o) const { return leaves == o.leaves && inodes == o.inodes; }
};

inline int class_of_fanout(size_t f) { return f <= 4 ? 0 : (f <= 16 ? 1 : (f <= 48 ? 2 : 3)); }

// keys: sorted, distinct. [lo, hi) share their first `depth` bytes.
inline void shape_rec(const std::vector<std::string>& keys, size_t lo, size_t hi, size_t depth, Shape& s) {
  if (hi - lo == 1) { s.leaves++; return; }
  // longest common prefix beyond depth
  const std::string& a = keys[lo];
  const std::string& b = keys[hi - 1];
  size_t l = depth;
  while (l < a.size() && l < b.size() && a[l] == b[l]) l++;
  if (l >= a.size() || l >= b.size()) { s.prefix_free = false; s.representable = false; s.leaves += hi - lo; return; }
  const auto path = static_cast<unsigned>(l - depth);
  if (path > s.max_path) s.max_path = path;
  if (path > 7) s.representable = false;
  size_t fan = 0, i = lo;
  while (i < hi) {
    size_t j = i;
    while (j < hi && keys[j][l] == keys[i][l]) j++;
    fan++;
    shape_rec(keys, i, j, l + 1, s);
    i = j;
  }
  s.inodes[static_cast<size_t>(class_of_fanout(fan))]++;
}
template <class KeyRange>
inline Shape shape_of(const KeyRange& sorted_keys) {
  std::vector<std::string> v(sorted_keys.begin(), sorted_keys.end());
  Shape s;
  if (!v.empty()) shape_rec(v, 0, v.size(), 0, s);
  return s;
}
template <class Map>
inline Shape shape_of_map(const Map& m) {
  std::vector<std::string> v;
  v.reserve(m.size());
  for (auto& kv : m) v.push_back(kv.first);
  Shape s;
  if (!v.empty()) shape_rec(v, 0, v.size(), 0, s);
  return s;
}

// ----------------------------------------------------- linearizability -----
// One operation on ONE key of a map. Values are unique ids (0 = none).
struct LinOp {
  enum T { GET, INSERT, REMOVE } type = GET;
  uint64_t call = 0, ret = 0;
  bool ok = false;        // insert/remove: returned true; get: found
  uint64_t value = 0;     // insert: value id written; get: value id seen
  int thread = 0, op = 0;
};

struct LinResult {
  bool linearizable = false;
  std::set<uint64_t> finals;  // admissible final states of the key: 0 = absent, else value id
};

// Wing-Gong search over the ops of one key; state = current value id (0 absent).
inline LinResult lin_check_key(const std::vector<LinOp>& ops, uint64_t initial) {
  LinResult res;
  const size_t n = ops.size();
  if (n > 24) { res.linearizable = true; res.finals.insert(UINT64_MAX); return res; }  // capped: treated as unknown
  std::set<std::pair<uint32_t, uint64_t>> seen;  // (mask, state) combos already explored (exact)
  struct Frame { uint32_t mask; uint64_t state; };
  std::vector<Frame> stack{{0, initial}};
  const uint32_t full = n == 32 ? 0xffffffffu : ((1u << n) - 1);
  while (!stack.empty()) {
    Frame f = stack.back();
    stack.pop_back();
    if (!seen.insert({f.mask, f.state}).second) continue;
    if (f.mask == full) { res.linearizable = true; res.finals.insert(f.state); continue; }
    // minimal ops: not done, and no other not-done op returned before it was called
    uint64_t min_ret = UINT64_MAX;
    for (size_t i = 0; i < n; i++) if (!(f.mask & (1u << i)) && ops[i].ret < min_ret) min_ret = ops[i].ret;
    for (size_t i = 0; i < n; i++) {
      if (f.mask & (1u << i)) continue;
      const LinOp& o = ops[i];
      if (o.call > min_ret) continue;  // some pending op finished before this one started
      uint64_t ns = f.state;
      bool fits = false;
      switch (o.type) {
        case LinOp::GET: fits = o.ok ? (f.state != 0 && f.state == o.value) : (f.state == 0); break;
        case LinOp::INSERT:
          if (o.ok) { fits = f.state == 0; ns = o.value; } else fits = f.state != 0;
          break;
        case LinOp::REMOVE:
          if (o.ok) { fits = f.state != 0; ns = 0; } else fits = f.state == 0;
          break;
      }
      if (fits) stack.push_back({f.mask | (1u << i), ns});
    }
  }
  return res;
}

// ---------------------------------------------- whole-map linearizability -----
// Operations of a map with multi-key operations (empty, clear, scans); used where every operation is
// supposed to be atomic (mutex_db). State = std::map<key, value id>.
struct MapOp {
  enum T { GET, INSERT, REMOVE, EMPTY, CLEAR, SCAN, SCAN_FROM, SCAN_RANGE } type = GET;
  std::string key, key2;
  bool fwd = true;
  int64_t halt = -1;
  uint64_t call = 0, ret = 0;
  bool ok = false;
  bool threw = false;  // ended with an injected allocation failure: must have had no effect
  uint64_t value = 0;
  std::vector<std::pair<std::string, uint64_t>> visited;
  int thread = 0, op = 0;
};
using MapState = std::map<std::string, uint64_t>;

inline std::vector<std::pair<std::string, uint64_t>> model_scan(const MapState& m, const MapOp& o) {
  std::vector<std::pair<std::string, uint64_t>> r;
  auto lim = [&] { return o.halt > 0 && static_cast<int64_t>(r.size()) >= o.halt; };
  auto fwd = [&](auto it, auto end) { for (; it != end && !lim(); ++it) r.emplace_back(it->first, it->second); };
  auto rev = [&](auto it, auto end) { for (; it != end && !lim(); ++it) r.emplace_back(it->first, it->second); };
  if (o.type == MapOp::SCAN) { if (o.fwd) fwd(m.begin(), m.end()); else rev(m.rbegin(), m.rend()); }
  else if (o.type == MapOp::SCAN_FROM) { if (o.fwd) fwd(m.lower_bound(o.key), m.end()); else rev(std::make_reverse_iterator(m.upper_bound(o.key)), m.rend()); }
  else if (o.key < o.key2) fwd(m.lower_bound(o.key), m.lower_bound(o.key2));
  else if (o.key > o.key2) rev(std::make_reverse_iterator(m.upper_bound(o.key)), std::make_reverse_iterator(m.upper_bound(o.key2)));
  return r;
}

// returns true iff some linearization explains all results
inline bool lin_check_map(const std::vector<MapOp>& ops, const MapState& initial, MapState* a_final = nullptr) {
  const size_t n = ops.size();
  if (n > 24) return true;  // capped
  std::set<std::pair<uint32_t, MapState>> seen;
  std::vector<std::pair<uint32_t, MapState>> stack{{0, initial}};
  const uint32_t full = (1u << n) - 1;
  while (!stack.empty()) {
    auto f = std::move(stack.back());
    stack.pop_back();
    if (!seen.insert(f).second) continue;
    if (f.first == full) { if (a_final) *a_final = f.second; return true; }
    uint64_t min_ret = UINT64_MAX;
    for (size_t i = 0; i < n; i++) if (!(f.first & (1u << i)) && ops[i].ret < min_ret) min_ret = ops[i].ret;
    for (size_t i = 0; i < n; i++) {
      if (f.first & (1u << i)) continue;
      const MapOp& o = ops[i];
      if (o.call > min_ret) continue;
      MapState ns = f.second;
      bool fits = false;
      auto it = ns.find(o.key);
      switch (o.type) {
        case MapOp::GET: fits = o.ok ? (it != ns.end() && it->second == o.value) : (it == ns.end()); break;
        case MapOp::INSERT: if (o.ok) { fits = it == ns.end(); ns[o.key] = o.value; } else fits = it != ns.end(); break;
        case MapOp::REMOVE: if (o.ok) { fits = it != ns.end(); if (fits) ns.erase(it); } else fits = it == ns.end(); break;
        case MapOp::EMPTY: fits = o.ok == ns.empty(); break;
        case MapOp::CLEAR: fits = true; ns.clear(); break;
        default: fits = model_scan(ns, o) == o.visited; break;
      }
      if (fits) stack.emplace_back(f.first | (1u << i), std::move(ns));
    }
  }
  return false;
}

}  // namespace sim
