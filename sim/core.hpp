// Deterministic simulation of unodb -- common definitions.
// PRNG streams, hashing, a tiny JSON value, and the Case (program + schedule
// + faults) that one seed expands to and that a replay file stores.
#pragma once

#include <algorithm>
#include <cstdint>
#include <cstdio>
#include <cstdlib>
#include <cstring>
#include <functional>
#include <map>
#include <memory>
#include <string>
#include <vector>

namespace sim {

// ---------------------------------------------------------------- PRNG ----
inline uint64_t splitmix64(uint64_t& x) {
  uint64_t z = (x += 0x9E3779B97F4A7C15ULL);
  z = (z ^ (z >> 30)) * 0xBF58476D1CE4E5B9ULL;
  z = (z ^ (z >> 27)) * 0x94D049BB133111EBULL;
  return z ^ (z >> 31);
}

struct Rng {  // xoshiro256**
  uint64_t s[4];
  explicit Rng(uint64_t seed = 1) { reseed(seed); }
  void reseed(uint64_t seed) {
    uint64_t x = seed;
    for (auto& v : s) v = splitmix64(x);
  }
  static uint64_t rotl(uint64_t x, int k) { return (x << k) | (x >> (64 - k)); }
  uint64_t next() {
    const uint64_t r = rotl(s[1] * 5, 7) * 9, t = s[1] << 17;
    s[2] ^= s[0]; s[3] ^= s[1]; s[1] ^= s[2]; s[0] ^= s[3];
    s[2] ^= t; s[3] = rotl(s[3], 45);
    return r;
  }
  // uniform in [0, n), n > 0
  uint64_t below(uint64_t n) { return n <= 1 ? 0 : next() % n; }
  // uniform in [lo, hi]
  int64_t range(int64_t lo, int64_t hi) {
    return lo + static_cast<int64_t>(below(static_cast<uint64_t>(hi - lo + 1)));
  }
  bool chance(double p) {
    return static_cast<double>(next() >> 11) * (1.0 / 9007199254740992.0) < p;
  }
  template <class T> const T& pick(const std::vector<T>& v) {
    return v[below(v.size())];
  }
};

// Independent streams keyed by purpose, all derived from the one seed.
enum Stream : uint64_t { S_WORKLOAD = 1, S_SCHEDULE = 2, S_FAULT = 3, S_BUGGIFY = 4, S_KNOBS = 5 };
inline Rng stream(uint64_t seed, uint64_t purpose) {
  uint64_t x = seed * 0xD1342543DE82EF95ULL + purpose * 0x2545F4914F6CDD1DULL + 0x1234567;
  return Rng(splitmix64(x));
}

// ---------------------------------------------------------------- hash ----
struct Hasher {
  uint64_t h = 0xcbf29ce484222325ULL;
  void add(uint64_t v) {
    h ^= v + 0x9E3779B97F4A7C15ULL + (h << 6) + (h >> 2);
    h *= 0x100000001b3ULL;
  }
  void add_bytes(const void* p, size_t n) {
    const auto* b = static_cast<const unsigned char*>(p);
    for (size_t i = 0; i < n; i++) { h ^= b[i]; h *= 0x100000001b3ULL; }
  }
  void add_str(const std::string& s) { add(s.size()); add_bytes(s.data(), s.size()); }
};

// ---------------------------------------------------------------- JSON ----
struct J {
  enum T { NUL, BOOL, INT, DBL, STR, ARR, OBJ } t = NUL;
  bool b = false;
  int64_t i = 0;
  double d = 0;
  std::string s;
  std::vector<J> a;
  std::vector<std::pair<std::string, J>> o;  // ordered: deterministic output

  J() = default;
  J(bool v) : t(BOOL), b(v) {}
  J(int v) : t(INT), i(v) {}
  J(unsigned v) : t(INT), i(v) {}
  J(int64_t v) : t(INT), i(v) {}
  J(uint64_t v) : t(INT), i(static_cast<int64_t>(v)) {}
  J(double v) : t(DBL), d(v) {}
  J(const char* v) : t(STR), s(v) {}
  J(const std::string& v) : t(STR), s(v) {}
  static J arr() { J j; j.t = ARR; return j; }
  static J obj() { J j; j.t = OBJ; return j; }
  J& push(J v) { t = ARR; a.push_back(std::move(v)); return *this; }
  J& set(const std::string& k, J v) {
    t = OBJ;
    for (auto& kv : o) if (kv.first == k) { kv.second = std::move(v); return *this; }
    o.emplace_back(k, std::move(v));
    return *this;
  }
  const J* get(const std::string& k) const {
    for (auto& kv : o) if (kv.first == k) return &kv.second;
    return nullptr;
  }
  int64_t geti(const std::string& k, int64_t def = 0) const {
    auto* p = get(k); return p && (p->t == INT) ? p->i : (p && p->t == DBL ? static_cast<int64_t>(p->d) : def);
  }
  std::string gets(const std::string& k, const std::string& def = "") const {
    auto* p = get(k); return p && p->t == STR ? p->s : def;
  }

  static void esc(std::string& out, const std::string& s) {
    out += '"';
    for (unsigned char c : s) {
      if (c == '"') out += "\\\"";
      else if (c == '\\') out += "\\\\";
      else if (c == '\n') out += "\\n";
      else if (c < 0x20 || c >= 0x7f) { char buf[8]; snprintf(buf, sizeof buf, "\\u%04x", c); out += buf; }
      else out += static_cast<char>(c);
    }
    out += '"';
  }
  void dump(std::string& out) const {
    switch (t) {
      case NUL: out += "null"; break;
      case BOOL: out += b ? "true" : "false"; break;
      case INT: out += std::to_string(i); break;
      case DBL: { char buf[40]; snprintf(buf, sizeof buf, "%.6g", d); out += buf; break; }
      case STR: esc(out, s); break;
      case ARR: {
        out += '[';
        for (size_t k = 0; k < a.size(); k++) { if (k) out += ','; a[k].dump(out); }
        out += ']';
        break;
      }
      case OBJ: {
        out += '{';
        for (size_t k = 0; k < o.size(); k++) {
          if (k) out += ',';
          esc(out, o[k].first); out += ':'; o[k].second.dump(out);
        }
        out += '}';
        break;
      }
    }
  }
  std::string str() const { std::string s2; dump(s2); return s2; }

  // parser
  struct P {
    const char* p; const char* e; bool ok = true;
    void ws() { while (p < e && (*p == ' ' || *p == '\n' || *p == '\t' || *p == '\r')) p++; }
    J val() {
      ws();
      if (p >= e) { ok = false; return J(); }
      if (*p == '{') {
        J j = J::obj(); p++; ws();
        if (p < e && *p == '}') { p++; return j; }
        while (ok) {
          ws(); J k = val(); if (k.t != STR) { ok = false; break; }
          ws(); if (p >= e || *p != ':') { ok = false; break; } p++;
          J v = val(); j.o.emplace_back(k.s, std::move(v));
          ws(); if (p < e && *p == ',') { p++; continue; }
          if (p < e && *p == '}') { p++; break; }
          ok = false;
        }
        return j;
      }
      if (*p == '[') {
        J j = J::arr(); p++; ws();
        if (p < e && *p == ']') { p++; return j; }
        while (ok) {
          j.a.push_back(val());
          ws(); if (p < e && *p == ',') { p++; continue; }
          if (p < e && *p == ']') { p++; break; }
          ok = false;
        }
        return j;
      }
      if (*p == '"') {
        p++; std::string s;
        while (p < e && *p != '"') {
          if (*p == '\\' && p + 1 < e) {
            p++;
            if (*p == 'n') s += '\n';
            else if (*p == 'u' && p + 4 < e) { s += static_cast<char>(strtol(std::string(p + 1, 4).c_str(), nullptr, 16)); p += 4; }
            else s += *p;
            p++;
          } else s += *p++;
        }
        if (p < e) p++; else ok = false;
        return J(s);
      }
      if (!strncmp(p, "true", 4)) { p += 4; return J(true); }
      if (!strncmp(p, "false", 5)) { p += 5; return J(false); }
      if (!strncmp(p, "null", 4)) { p += 4; return J(); }
      char* end = nullptr;
      const char* q = p; bool isd = false;
      while (q < e && (isdigit(static_cast<unsigned char>(*q)) || *q == '-' || *q == '+' || *q == '.' || *q == 'e' || *q == 'E')) { if (*q == '.' || *q == 'e' || *q == 'E') isd = true; q++; }
      if (q == p) { ok = false; return J(); }
      if (isd) { double d = strtod(p, &end); p = end; return J(d); }
      long long v = strtoll(p, &end, 10); p = end; return J(static_cast<int64_t>(v));
    }
  };
  static bool parse(const std::string& text, J& out) {
    P ps{text.data(), text.data() + text.size()};
    out = ps.val();
    return ps.ok;
  }
};

inline std::string hex(const std::string& bytes) {
  static const char* d = "0123456789abcdef";
  std::string r;
  for (unsigned char c : bytes) { r += d[c >> 4]; r += d[c & 15]; }
  return r;
}
inline std::string unhex(const std::string& h) {
  std::string r;
  auto v = [](char c) { return c <= '9' ? c - '0' : (c | 32) - 'a' + 10; };
  for (size_t i = 0; i + 1 < h.size(); i += 2) r += static_cast<char>(v(h[i]) * 16 + v(h[i + 1]));
  return r;
}
inline std::string u64key(uint64_t k) {  // big-endian == binary comparable
  std::string r(8, '\0');
  for (int i = 0; i < 8; i++) r[i] = static_cast<char>((k >> (56 - 8 * i)) & 0xff);
  return r;
}
inline uint64_t keyu64(const std::string& s) {
  uint64_t k = 0;
  for (size_t i = 0; i < 8 && i < s.size(); i++) k = (k << 8) | static_cast<unsigned char>(s[i]);
  return k;
}

// ---------------------------------------------------------------- Case ----
// One operation of a simulated program. Meaning of kind/a/b/c is per engine.
struct Op {
  int kind = 0;
  std::string key;   // binary-comparable key bytes (u64 keys: 8 bytes big-endian)
  std::string key2;  // second bound (scan_range)
  int64_t a = 0, b = 0, c = 0, d = 0;
};

// "When thread `thread` is about to execute hook number `hook` of its
// operation number `op`, run thread `to` instead" -- a deviation from the
// default policy (keep running; at a forced switch take the next runnable
// thread in cyclic id order).
struct SchedEntry { int thread, op, hook, to; };

// Fault attached to an operation: kind 1 = fail the k-th allocation of that
// operation; kind 2 = spurious weak-CAS failure at the k-th buggify call of
// that operation (site recorded for information).
struct FaultEntry { int thread, op, kind, k, site; };

struct Case {
  std::string engine;
  uint64_t seed = 0;
  std::vector<std::pair<std::string, int64_t>> knobs;
  std::vector<Op> prefill;
  std::vector<std::vector<Op>> threads;
  std::vector<SchedEntry> sched;
  std::vector<FaultEntry> faults;
  bool explicit_schedule = false;  // true: replay `sched`; false: strategy decides

  int64_t knob(const std::string& k, int64_t def = 0) const {
    for (auto& kv : knobs) if (kv.first == k) return kv.second;
    return def;
  }
  void set_knob(const std::string& k, int64_t v) {
    for (auto& kv : knobs) if (kv.first == k) { kv.second = v; return; }
    knobs.emplace_back(k, v);
  }
  size_t total_ops() const { size_t n = 0; for (auto& t : threads) n += t.size(); return n; }
};

inline J op_to_json(const Op& o) {
  J j = J::arr();
  j.push(o.kind).push(hex(o.key)).push(hex(o.key2)).push(o.a).push(o.b).push(o.c).push(o.d);
  return j;
}
inline Op op_from_json(const J& j) {
  Op o;
  if (j.a.size() >= 7) {
    o.kind = static_cast<int>(j.a[0].i); o.key = unhex(j.a[1].s); o.key2 = unhex(j.a[2].s);
    o.a = j.a[3].i; o.b = j.a[4].i; o.c = j.a[5].i; o.d = j.a[6].i;
  }
  return o;
}
inline J case_to_json(const Case& c) {
  J j = J::obj();
  j.set("engine", c.engine).set("seed", c.seed);
  J k = J::obj(); for (auto& kv : c.knobs) k.set(kv.first, kv.second); j.set("knobs", k);
  J pf = J::arr(); for (auto& o : c.prefill) pf.push(op_to_json(o)); j.set("prefill", pf);
  J th = J::arr();
  for (auto& t : c.threads) { J tj = J::arr(); for (auto& o : t) tj.push(op_to_json(o)); th.push(tj); }
  j.set("threads", th);
  J sc = J::arr();
  for (auto& e : c.sched) { J ej = J::arr(); ej.push(e.thread).push(e.op).push(e.hook).push(e.to); sc.push(ej); }
  j.set("sched", sc);
  J fl = J::arr();
  for (auto& f : c.faults) { J fj = J::arr(); fj.push(f.thread).push(f.op).push(f.kind).push(f.k).push(f.site); fl.push(fj); }
  j.set("faults", fl);
  j.set("explicit_schedule", c.explicit_schedule);
  return j;
}
inline Case case_from_json(const J& j) {
  Case c;
  c.engine = j.gets("engine"); c.seed = static_cast<uint64_t>(j.geti("seed"));
  if (auto* k = j.get("knobs")) for (auto& kv : k->o) c.knobs.emplace_back(kv.first, kv.second.i);
  if (auto* p = j.get("prefill")) for (auto& o : p->a) c.prefill.push_back(op_from_json(o));
  if (auto* t = j.get("threads")) for (auto& tj : t->a) { c.threads.emplace_back(); for (auto& o : tj.a) c.threads.back().push_back(op_from_json(o)); }
  if (auto* s = j.get("sched")) for (auto& e : s->a) if (e.a.size() >= 4) c.sched.push_back({static_cast<int>(e.a[0].i), static_cast<int>(e.a[1].i), static_cast<int>(e.a[2].i), static_cast<int>(e.a[3].i)});
  if (auto* f = j.get("faults")) for (auto& e : f->a) if (e.a.size() >= 5) c.faults.push_back({static_cast<int>(e.a[0].i), static_cast<int>(e.a[1].i), static_cast<int>(e.a[2].i), static_cast<int>(e.a[3].i), static_cast<int>(e.a[4].i)});
  if (auto* e = j.get("explicit_schedule")) c.explicit_schedule = e->b;
  return c;
}

// ------------------------------------------------------------- Result ----
struct Result {
  bool ok = true;
  bool known = false;          // matched a known finding predicate
  std::string vclass;          // violation class (stable across shrinking)
  std::string detail;          // human-readable
  uint64_t hash = 0;           // event-log hash
  uint64_t steps = 0, switches = 0;
  bool nontrivial = false;
  std::vector<SchedEntry> realised;  // deviations actually taken
  std::vector<FaultEntry> fired;     // faults actually delivered
};

// Engine interface.
struct Engine {
  virtual ~Engine() = default;
  virtual const char* name() const = 0;
  // Expand a program seed into a case (program + knobs). The schedule is left to the strategy.
  virtual Case generate(uint64_t seed, const std::string& tier) = 0;
  // Execute. Violations that cannot be returned (deadlock inside a call,
  // sanitizer, assertion) terminate the process through sim::die().
  virtual Result run(const Case& c) = 0;
  // Human-readable rendering of an op for samples/replay files.
  virtual std::string describe(const Op& o) const = 0;
  // Seeds s with equal s / schedules_per_program() share the program and differ in schedule only.
  virtual uint64_t schedules_per_program() const { return 1; }
  virtual bool uses_buggify() const { return false; }
  // true: schedule indexes >= 2 of a program enumerate a grid of double preemptions (see main.cpp) instead of sampling strategies
  virtual bool systematic_sweep() const { return false; }
  // Optional engine-specific argument simplification for the minimiser.
  virtual std::vector<Case> simplify(const Case&) { return {}; }
  // Minimiser support: may thread index t (0-based in Case.threads) be removed? Fix up references.
  virtual bool remove_thread(Case& c, size_t t);
  virtual bool remove_op(Case& c, size_t t, size_t i);
  // weighted hook counts per sim thread id measured on the sequential schedule of this program
  std::vector<uint32_t> measured;
  std::vector<uint32_t> measured_op0;  // hooks of each thread's operation 0 on the sequential schedule
  bool has_measured = false;
  const std::vector<uint32_t>* measured_ptr() const { return has_measured ? &measured : nullptr; }
};

inline bool Engine::remove_thread(Case& c, size_t t) {
  if (c.threads.size() <= 1 || t >= c.threads.size()) return false;
  c.threads.erase(c.threads.begin() + static_cast<long>(t));
  const int id = static_cast<int>(t) + 1;
  std::vector<SchedEntry> ns;
  const int nt = static_cast<int>(c.threads.size()) + 1;  // thread count before the erase
  for (auto e : c.sched) {
    if (e.thread == id) continue;
    if (e.to == id) e.to = (id % nt) + 1;  // retarget to the next thread instead of losing the switch
    if (e.to == id) continue;
    if (e.thread > id) e.thread--;
    if (e.to > id) e.to--;
    ns.push_back(e);
  }
  c.sched = ns;
  std::vector<FaultEntry> nf;
  for (auto f : c.faults) {
    if (f.thread == id) continue;
    if (f.thread > id) f.thread--;
    nf.push_back(f);
  }
  c.faults = nf;
  return true;
}
inline bool Engine::remove_op(Case& c, size_t t, size_t i) {
  if (t >= c.threads.size() || i >= c.threads[t].size()) return false;
  c.threads[t].erase(c.threads[t].begin() + static_cast<long>(i));
  const int id = static_cast<int>(t) + 1, oi = static_cast<int>(i);
  std::vector<SchedEntry> ns;
  for (auto e : c.sched) {
    if (e.thread == id) { if (e.op == oi) continue; if (e.op > oi) e.op--; }
    ns.push_back(e);
  }
  c.sched = ns;
  std::vector<FaultEntry> nf;
  for (auto f : c.faults) {
    if (f.thread == id) { if (f.op == oi) continue; if (f.op > oi) f.op--; }
    nf.push_back(f);
  }
  c.faults = nf;
  return true;
}

}  // namespace sim
