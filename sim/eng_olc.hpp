// olcsim -- C03 (linearizability), C04 (no use of reclaimed memory, held
// views), C09 (concurrent scans), C14 (no deadlock / no lock left behind) and
// the post-quiescence part of C10, on the real unodb::olc_db under the
// deterministic scheduler.
#pragma once

#include <map>
#include <memory>
#include <set>

#include "global.hpp"
#include "olc_art.hpp"
#include "qsbr.hpp"

#include "models.hpp"
#include "sched.hpp"

namespace sim::olc {

enum OKind { O_GET = 1, O_INSERT = 2, O_REMOVE = 3, O_SCAN = 4, O_SCAN_FROM = 5, O_SCAN_RANGE = 6, O_QUIESCE = 7, O_PAUSE_RESUME = 8, O_SPAWN = 9 };
// pause_resume: qsbr_pause(); qsbr_resume() between two index operations; spawn: a = index (in Case.threads) of the qsbr_thread to start
// Op fields: key, key2; insert: a = value id, b = value length; scans: a = forward?, b = halt after b visits (-1 never)

struct PointEv {
  int thread = 0, op = 0, kind = 0;
  std::string key;
  uint64_t call = 0, ret = 0;
  bool ok = false, threw = false;
  uint64_t value = 0;
};
struct Visit { std::string key; uint64_t value = 0; uint64_t stamp = 0; };
struct ScanEv {
  int thread = 0, op = 0, kind = 0;
  std::string from, to;
  bool fwd = true;
  int64_t halt = -1;
  uint64_t call = 0, ret = 0;
  std::vector<Visit> visits;
};
struct ThreadLog { std::vector<PointEv> points; std::vector<ScanEv> scans; uint64_t quiescents = 0, pauses = 0, spawns = 0; };

template <class Key> struct KeyConv;
template <> struct KeyConv<std::uint64_t> {
  static std::uint64_t make(const std::string& k) { return keyu64(k); }
};
template <> struct KeyConv<unodb::key_view> {
  static unodb::key_view make(const std::string& k) { return {reinterpret_cast<const std::byte*>(k.data()), k.size()}; }
};

// Hostile placement of caller-side key buffers: an exact-size heap block, so that AddressSanitizer's redzone starts at
// the byte after the key. unodb computes on optimistically read node data before validating it; a read past the end of
// the caller's key that such a computation provokes is visible here (std::string's SSO buffer would hide it).
struct ExactKey {
  std::unique_ptr<char[]> buf;
  size_t n;
  explicit ExactKey(const std::string& k) : buf(new char[k.size() ? k.size() : 1]), n(k.size()) { std::memcpy(buf.get(), k.data(), k.size()); }
  template <class Key> Key as() const {
    if constexpr (std::is_same_v<Key, unodb::key_view>) return unodb::key_view{reinterpret_cast<const std::byte*>(buf.get()), n};
    else return keyu64(std::string(buf.get(), n));
  }
};

struct Held { const std::byte* p; size_t n; std::string copy; int op; std::string key; };

inline void fail(Result& r, const std::string& cls, const std::string& d) {
  if (!r.ok) return;
  r.ok = false; r.vclass = cls; r.detail = d;
}

inline std::string opid(int t, int o) { return "t" + std::to_string(t) + ".op" + std::to_string(o); }

// -------------------------------------------------------------------------
template <class Key>
struct Runner {
  using Db = unodb::olc_db<Key, unodb::value_view>;

  static void recheck(std::vector<Held>& held, int tid) {
    for (auto& h : held) {
      point(K_HARNESS, h.p);  // hooked: the ledger check in the scheduler flags a freed block
      const Block* b = find_block(h.p);
      if (b != nullptr && b->state != 0)
        die("view-freed", "value view obtained by " + opid(tid, h.op) + " points into block #" + std::to_string(b->seq) +
                              " freed by t" + std::to_string(b->free_thread) + " before the reader's next quiescent state");
      if (h.n && memcmp(h.p, h.copy.data(), h.n) != 0)
        die("view-changed", "bytes behind the value view obtained by " + opid(tid, h.op) + " changed before the reader's next quiescent state");
    }
  }

  static void body(Db* db, const Case* c, int tid, std::vector<ThreadLog>* logs) {
    ThreadLog* log = &(*logs)[static_cast<size_t>(tid - 1)];
    const auto& ops = c->threads[static_cast<size_t>(tid - 1)];
    const int qplace = static_cast<int>(c->knob("qplace", 0));
    const bool hold = c->knob("hold", 0) != 0;
    std::vector<Held> held;
    log->points.reserve(ops.size());
    log->scans.reserve(ops.size());
    auto quiesce = [&] {
      recheck(held, tid);
      held.clear();
      unodb::this_thread().quiescent();
      log->quiescents++;
    };
    for (size_t i = 0; i < ops.size(); i++) {
      const Op& o = ops[i];
      const int oi = static_cast<int>(i);
      if (!held.empty()) recheck(held, tid);
      switch (o.kind) {
        case O_GET: {
          PointEv ev; ev.thread = tid; ev.op = oi; ev.kind = o.kind; ev.key = o.key;
          const ExactKey xk(o.key);
          const Key k = xk.template as<Key>();
          op_begin(oi);
          ev.call = stamp();
          {
            auto r = db->get(k);
            ev.ret = stamp();
            ev.ok = r.has_value();
            if (ev.ok) {
              HooksOff off;
              const auto* p = r->begin().get();
              const size_t n = r->size();
              std::string copy(reinterpret_cast<const char*>(p), n);
              ev.value = parse_value(copy.data(), copy.size());
              if (ev.value == 0) ev.value = UINT64_MAX;  // garbage marker
              if (hold) held.push_back({p, n, std::move(copy), oi, o.key});
            }
          }
          op_end();
          note((ev.ok ? 1u : 0u) | (ev.value << 1));
          log->points.push_back(std::move(ev));
          break;
        }
        case O_INSERT: {
          PointEv ev; ev.thread = tid; ev.op = oi; ev.kind = o.kind; ev.key = o.key; ev.value = static_cast<uint64_t>(o.a);
          const std::string val = make_value(static_cast<uint64_t>(o.a), static_cast<size_t>(o.b));
          const ExactKey xk(o.key);
          const Key k = xk.template as<Key>();
          const unodb::value_view vv{reinterpret_cast<const std::byte*>(val.data()), val.size()};
          op_begin(oi);
          ev.call = stamp();
          try {
            ev.ok = db->insert(k, vv);
          } catch (const std::bad_alloc&) {
            ev.threw = true;
          }
          ev.ret = stamp();
          op_end();
          note((ev.ok ? 1u : 0u) | (ev.threw ? 2u : 0u));
          log->points.push_back(std::move(ev));
          break;
        }
        case O_REMOVE: {
          PointEv ev; ev.thread = tid; ev.op = oi; ev.kind = o.kind; ev.key = o.key;
          const ExactKey xk(o.key);
          const Key k = xk.template as<Key>();
          // The guarantee covers entries removed *concurrently*. A thread that removes the entry itself gives up its own
          // views of it (QSBR may execute the request at once when this thread is the only registered one).
          for (size_t h = held.size(); h-- > 0;)
            if (held[h].key == o.key) held.erase(held.begin() + static_cast<long>(h));
          op_begin(oi);
          ev.call = stamp();
          ev.ok = db->remove(k);
          ev.ret = stamp();
          op_end();
          note(ev.ok ? 1u : 0u);
          log->points.push_back(std::move(ev));
          break;
        }
        case O_SCAN: case O_SCAN_FROM: case O_SCAN_RANGE: {
          ScanEv ev; ev.thread = tid; ev.op = oi; ev.kind = o.kind; ev.from = o.key; ev.to = o.key2;
          ev.fwd = o.kind == O_SCAN_RANGE ? (o.key < o.key2) : (o.a != 0);
          ev.halt = o.b;
          ev.visits.reserve(64);
          const ExactKey xk1(o.key), xk2(o.key2);
          const Key k1 = xk1.template as<Key>();
          const Key k2 = xk2.template as<Key>();
          auto fn = [&](const unodb::visitor<typename Db::iterator>& v) {
            Visit vis;
            {
              HooksOff off;
              const auto kv = v.get_key();
              vis.key.assign(reinterpret_cast<const char*>(kv.data()), kv.size());
              const auto val = v.get_value();
              std::string copy(reinterpret_cast<const char*>(val.begin().get()), val.size());
              vis.value = parse_value(copy.data(), copy.size());
              if (vis.value == 0) vis.value = UINT64_MAX;
              if (hold && held.size() < 6) held.push_back({val.begin().get(), val.size(), std::move(copy), oi, vis.key});
            }
            vis.stamp = stamp();
            ev.visits.push_back(std::move(vis));
            point(K_HARNESS, nullptr);
            return ev.halt >= 0 && static_cast<int64_t>(ev.visits.size()) >= ev.halt && ev.halt > 0;
          };
          op_begin(oi);
          ev.call = stamp();
          if (o.kind == O_SCAN) db->scan(fn, ev.fwd);
          else if (o.kind == O_SCAN_FROM) db->scan_from(k1, fn, ev.fwd);
          else db->scan_range(k1, k2, fn);
          ev.ret = stamp();
          op_end();
          note(ev.visits.size());
          log->scans.push_back(std::move(ev));
          break;
        }
        case O_QUIESCE: {
          op_begin(oi);
          quiesce();
          op_end();
          break;
        }
        case O_PAUSE_RESUME: {
          // a pause is a quiescent state: views are given up first. Unregistration and re-registration race with the
          // other threads' index operations, deferred requests and epoch changes.
          recheck(held, tid);
          held.clear();
          op_begin(oi);
          unodb::this_thread().qsbr_pause();
          // stay paused for o.a + 1 scheduling points (o.b != 0: yielding, so that the others run on with fewer registered threads)
          for (int64_t k = 0; k <= o.a; k++) point(o.b ? K_SPIN : K_HARNESS, nullptr);
          unodb::this_thread().qsbr_resume();
          op_end();
          log->pauses++;
          break;
        }
        case O_SPAWN: {
          const int child = static_cast<int>(o.a) + 1;
          op_begin(oi);
          spawn(child, [db, c, child, logs] { body(db, c, child, logs); }, true);
          op_end();
          log->spawns++;
          break;
        }
        default: break;
      }
      if (o.kind != O_QUIESCE && o.kind != O_PAUSE_RESUME && o.kind != O_SPAWN && (qplace == 0 || (qplace == 2 && (i % 2) == 1))) quiesce();
    }
    recheck(held, tid);
    held.clear();
    // thread exit follows: QSBR unregistration runs from the TLS destructor under the scheduler
  }

  // ------------------------------------------------------------ oracles ---
  struct Oracle {
    const Case& c;
    std::vector<ThreadLog>& logs;
    Result& r;
    std::map<std::string, uint64_t> prefill;                 // key -> value id
    std::map<uint64_t, const PointEv*> insert_of_value;      // value id -> insert op
    std::map<uint64_t, std::string> prefill_key_of_value;
    std::map<std::string, std::vector<const PointEv*>> by_key;
    std::map<std::string, std::set<uint64_t>> finals;        // admissible final state per key

    void index() {
      for (auto& o : c.prefill) { prefill[o.key] = static_cast<uint64_t>(o.a); prefill_key_of_value[static_cast<uint64_t>(o.a)] = o.key; }
      for (auto& l : logs)
        for (auto& e : l.points) {
          by_key[e.key].push_back(&e);
          if (e.kind == O_INSERT) insert_of_value[e.value] = &e;
        }
    }

    // C03: per-key linearizability; also yields the admissible final states
    void linearizability() {
      std::set<std::string> keys;
      for (auto& kv : by_key) keys.insert(kv.first);
      for (auto& kv : prefill) keys.insert(kv.first);
      for (auto& k : keys) {
        std::vector<LinOp> ops;
        bool garbage = false;
        auto it = by_key.find(k);
        if (it != by_key.end())
          for (auto* e : it->second) {
            if (e->kind == O_INSERT && e->threw) continue;  // must have had no effect; a visible effect shows up as an unknown value
            LinOp lo;
            lo.type = e->kind == O_GET ? LinOp::GET : (e->kind == O_INSERT ? LinOp::INSERT : LinOp::REMOVE);
            lo.call = e->call; lo.ret = e->ret; lo.ok = e->ok; lo.value = e->value; lo.thread = e->thread; lo.op = e->op;
            if (e->kind == O_GET && e->ok && e->value == UINT64_MAX) {
              garbage = true;
              fail(r, "garbage-value", "get by " + opid(e->thread, e->op) + " returned bytes that no insert wrote");
            }
            ops.push_back(lo);
          }
        if (garbage) continue;
        const uint64_t init = prefill.count(k) ? prefill[k] : 0;
        LinResult lr = lin_check_key(ops, init);
        if (!lr.linearizable) {
          std::string d = "history of key " + hex(k) + " (initially " + (init ? "present" : "absent") + ") is not linearizable:";
          for (auto& lo : ops)
            d += " [" + opid(lo.thread, lo.op) + (lo.type == LinOp::GET ? " get" : lo.type == LinOp::INSERT ? " insert" : " remove") +
                 (lo.type == LinOp::GET ? (lo.ok ? "=v" + std::to_string(lo.value) : "=none") : (lo.ok ? "=true" : "=false")) + " @" +
                 std::to_string(lo.call) + "-" + std::to_string(lo.ret) + "]";
          fail(r, "not-linearizable", d);
          finals[k].insert(UINT64_MAX);
        } else {
          finals[k] = lr.finals;
        }
      }
    }

    bool value_belongs(uint64_t v, const std::string& key, const PointEv** ins) const {
      *ins = nullptr;
      auto p = prefill_key_of_value.find(v);
      if (p != prefill_key_of_value.end()) return p->second == key;
      auto i = insert_of_value.find(v);
      if (i == insert_of_value.end()) return false;
      *ins = i->second;
      return i->second->key == key;
    }

    // C09: concurrent-scan oracle; all judgements on the conservative side
    void scans() {
      for (auto& l : logs)
        for (auto& s : l.scans) {
          const std::string who = opid(s.thread, s.op);
          // interval
          auto in_interval = [&](const std::string& k) {
            if (s.kind == O_SCAN) return true;
            if (s.kind == O_SCAN_FROM) return s.fwd ? k >= s.from : k <= s.from;
            if (s.from == s.to) return false;
            return s.fwd ? (k >= s.from && k < s.to) : (k <= s.from && k > s.to);
          };
          for (size_t i = 0; i < s.visits.size(); i++) {
            const Visit& v = s.visits[i];
            if (i > 0) {
              const bool mono = s.fwd ? s.visits[i - 1].key < v.key : s.visits[i - 1].key > v.key;
              if (!mono) fail(r, "scan-order", who + " delivered " + hex(v.key) + " after " + hex(s.visits[i - 1].key) + " in a " + (s.fwd ? "forward" : "reverse") + " scan");
            }
            if (!in_interval(v.key)) fail(r, "scan-bounds", who + " delivered " + hex(v.key) + " outside the requested interval");
            if (v.value == UINT64_MAX) { fail(r, "scan-garbage-value", who + " delivered bytes no insert wrote for key " + hex(v.key)); continue; }
            const PointEv* ins = nullptr;
            if (!value_belongs(v.value, v.key, &ins)) { fail(r, "scan-wrong-value", who + " delivered for key " + hex(v.key) + " a value that was never inserted under that key"); continue; }
            if (ins != nullptr) {
              if (ins->call > v.stamp) fail(r, "scan-value-from-future", who + " delivered a value whose insert was called after the visit");
              if (!ins->ok && !(ins->ret > s.call)) fail(r, "scan-wrong-value", who + " delivered the value of an insert that had failed");
            }
            // value provably gone before the scan was called?
            const uint64_t born = ins ? ins->ret : 0;
            auto bk = by_key.find(v.key);
            if (bk != by_key.end())
              for (auto* e : bk->second)
                if (e->kind == O_REMOVE && e->ok && e->call > born && e->ret < s.call)
                  fail(r, "scan-stale-value", who + " delivered for key " + hex(v.key) + " a value that " + opid(e->thread, e->op) + " had removed before the scan was called");
          }
          // completeness for keys provably present throughout
          const bool halted = s.halt > 0 && static_cast<int64_t>(s.visits.size()) >= s.halt;
          std::set<std::string> delivered;
          for (auto& v : s.visits) delivered.insert(v.key);
          std::set<std::string> candidates;
          for (auto& kv : prefill) candidates.insert(kv.first);
          for (auto& kv : by_key) candidates.insert(kv.first);
          for (auto& k : candidates) {
            if (!in_interval(k)) continue;
            if (halted) {
              if (s.visits.empty()) continue;
              const std::string& last = s.visits.back().key;
              if (s.fwd ? k > last : k < last) continue;
            }
            // establishing events
            std::vector<uint64_t> est;  // call time of the establishing event (0 = prefill)
            if (prefill.count(k)) est.push_back(0);
            auto bk = by_key.find(k);
            if (bk != by_key.end())
              for (auto* e : bk->second)
                if (e->kind == O_INSERT && e->ok && e->ret < s.call) est.push_back(e->call);
            bool present = false;
            for (auto ec : est) {
              bool disq = false;
              if (bk != by_key.end())
                for (auto* e : bk->second)
                  if (e->kind == O_REMOVE && e->ok && e->call < s.ret && !(e->ret < ec)) disq = true;
              if (!disq) present = true;
            }
            if (present && !delivered.count(k))
              fail(r, "scan-missed-stable-key", who + " did not deliver key " + hex(k) + " which was present for the whole duration of the scan");
          }
        }
    }
  };

  // ---------------------------------------------------------------- run ---
  static Result run(const Case& c, const std::vector<uint32_t>* measured) {
    Result res;
    run_begin(c, measured);
    auto db = std::make_unique<Db>();
    name_region(db.get(), sizeof(Db), 3);
    for (auto& o : c.prefill) {
      const std::string val = make_value(static_cast<uint64_t>(o.a), static_cast<size_t>(o.b));
      if (!db->insert(KeyConv<Key>::make(o.key), unodb::value_view{reinterpret_cast<const std::byte*>(val.data()), val.size()}))
        die("harness", "prefill insert of a duplicate key");
    }
    std::vector<ThreadLog> logs(c.threads.size());
    Db* dbp = db.get();
    const Case* cp = &c;
    std::vector<ThreadLog>* lgs = &logs;
    const size_t ninit = static_cast<size_t>(c.knob("initial_threads", static_cast<int64_t>(c.threads.size())));
    for (size_t t = 0; t < c.threads.size() && t < ninit; t++) {
      const int tid = static_cast<int>(t) + 1;
      spawn(tid, [dbp, cp, tid, lgs] { body(dbp, cp, tid, lgs); }, true);
    }
    unodb::this_thread().qsbr_pause();
    concurrent_begin();
    join_all();
    // thread 0 is alone again; hooks stay active so that a lock left behind shows as a lone spin
    unodb::this_thread().qsbr_resume();
    Oracle orc{c, logs, res, {}, {}, {}, {}, {}};
    orc.index();
    orc.linearizability();
    orc.scans();
    sweep(*db, orc, res);
    unodb::this_thread().quiescent();
    unodb::this_thread().quiescent();
    concurrent_end();
    accounting(*db, orc, res);
    reach(*db, c, logs);
    db.reset();
    {
      int nb = 0;
      const size_t bytes = live_bytes(&nb);
      if (nb != 0) fail(res, "leak", std::to_string(nb) + " blocks (" + std::to_string(bytes) + " bytes) still allocated after the index was destroyed and QSBR drained");
    }
    auto& q = unodb::qsbr::instance();
    if (!q.previous_interval_orphaned_requests_empty() || !q.current_interval_orphaned_requests_empty() ||
        !unodb::this_thread().previous_interval_requests_empty() || !unodb::this_thread().current_interval_requests_empty())
      fail(res, "qsbr-not-drained", "deferred requests pending after all threads exited and the last thread quiesced twice");
    if (const std::string bad = qsbr_idle_selftest(); !bad.empty()) fail(res, "qsbr-state-inconsistent", bad);
    run_end(res);
    res.nontrivial = false;
    for (auto& e : res.realised) if (e.hook > 1) res.nontrivial = true;
    return res;
  }

  // reach probes for the evidence: which structural changes happened while threads were running
  static void reach(Db& db, const Case& c, const std::vector<ThreadLog>& logs) {
    auto& st = stats();
#ifdef UNODB_DETAIL_WITH_STATS
    static const char* cls[] = {"I4", "I16", "I48", "I256"};
    const auto g = db.get_growing_inode_counts();
    const auto sh = db.get_shrinking_inode_counts();
    // prefill grows nodes too: subtract what a sequential build of the prefill alone produces is not available cheaply,
    // so count shrinks (which only operations of the concurrent phase and the sweep cause) and growth beyond the prefill's
    const Shape pre = prefill_shape(c);
    const uint64_t pre_growth[4] = {pre.inodes[0] + pre.inodes[1] + pre.inodes[2] + pre.inodes[3], pre.inodes[1] + pre.inodes[2] + pre.inodes[3], pre.inodes[2] + pre.inodes[3], pre.inodes[3]};
    for (size_t i = 0; i < 4; i++) {
      st.bump(std::string("reach_concurrent_growth_") + cls[i], g[i] > pre_growth[i] ? g[i] - pre_growth[i] : 0);
      st.bump(std::string("reach_concurrent_shrink_") + cls[i], sh[i]);
    }
    st.bump("reach_concurrent_prefix_split", db.get_key_prefix_splits());
#else
    (void)db;
#endif
    uint64_t scans = 0, visits = 0, q = 0, threw = 0, pauses = 0, spawns = 0;
    for (auto& l : logs) { pauses += l.pauses; spawns += l.spawns; }
    st.bump("qsbr_pause_resume_between_operations", pauses); st.bump("qsbr_threads_started_inside_the_concurrent_phase", spawns);
    for (auto& l : logs) { scans += l.scans.size(); q += l.quiescents; for (auto& s2 : l.scans) visits += s2.visits.size(); for (auto& e : l.points) threw += e.threw; }
    st.bump("concurrent_scans", scans); st.bump("concurrent_scan_visits", visits); st.bump("quiescent_states", q); st.bump("inserts_failed_by_injected_allocation_failure", threw);
    st.bump(c.knob("keykind", 0) ? "programs_byte_string_keys" : "programs_uint64_keys");
    if (c.knob("template", 0)) { static const char* tn[] = {"", "collapse_inner_survivor", "collapse_leaf_survivor", "prefix_split", "growth", "shrink", "leaf_split_below", "sustained_writes"}; st.bump(std::string("programs_template_") + tn[c.knob("template", 0) % 8]); }
    if (c.knob("varlen", 0)) st.bump("programs_variable_length_byte_string_keys");
    if (c.knob("varbound", 0)) st.bump("programs_scan_bounds_of_other_lengths_than_stored_keys");
  }
  static Shape prefill_shape(const Case& c) {
    std::set<std::string> keys;
    for (auto& o : c.prefill) keys.insert(o.key);
    return shape_of(keys);
  }

  // C14 sweep: single-threaded, hooks active (a lock left behind = lone spin -> deadlock report)
  static void sweep(Db& db, Oracle& orc, Result& res) {
    std::map<std::string, uint64_t> final_map;
    int opn = 100000;
    for (auto& kv : orc.finals) {
      op_begin(opn++);
      auto g = db.get(KeyConv<Key>::make(kv.first));
      uint64_t state = 0;
      if (g.has_value()) {
        HooksOff off;
        state = parse_value(g->begin().get(), g->size());
        if (state == 0) state = UINT64_MAX - 1;
      }
      op_end();
      if (!kv.second.count(UINT64_MAX) && !kv.second.count(state))
        fail(res, "final-state", "after the run key " + hex(kv.first) + " is " + (state ? "present with value " + std::to_string(state) : "absent") +
                                     ", which no linearization of its history admits");
      if (state) final_map[kv.first] = state;
    }
    // full scans both ways equal the final content
    for (int dir = 0; dir < 2; dir++) {
      std::vector<std::string> seen;
      op_begin(opn++);
      db.scan([&](const unodb::visitor<typename Db::iterator>& v) {
        HooksOff off;
        const auto kv = v.get_key();
        seen.emplace_back(reinterpret_cast<const char*>(kv.data()), kv.size());
        return false;
      }, dir == 0);
      op_end();
      std::vector<std::string> want;
      for (auto& kv : final_map) want.push_back(kv.first);
      if (dir == 1) std::reverse(want.begin(), want.end());
      if (seen != want && res.ok)
        fail(res, "final-scan", std::string("single-threaded ") + (dir == 0 ? "forward" : "reverse") + " scan after the run delivers " + std::to_string(seen.size()) +
                                    " keys, the final content has " + std::to_string(want.size()) + " (or order differs)");
    }
    // insert+remove probes next to every key
    const uint64_t probe_val_base = 0x7000000000ULL;
    uint64_t pv = 0;
    std::set<std::string> probes;
    for (auto& kv : orc.finals) {
      std::string k = kv.first;
      if (k.empty()) continue;
      // differ within the first 8 bytes: the probe must keep the key set representable (<= 7-byte compressed paths)
      const size_t pos = std::min<size_t>(k.size() - 1, 7);
      k[pos] = static_cast<char>(static_cast<unsigned char>(k[pos]) ^ 0x55);
      // the probe must keep the key set prefix-free as well (keys may have different lengths)
      bool clash = orc.finals.count(k) != 0;
      for (auto& other : orc.finals) {
        const std::string& m = other.first;
        const size_t n = std::min(m.size(), k.size());
        if (m.compare(0, n, k, 0, n) == 0) { clash = true; break; }
      }
      if (!clash) probes.insert(k);
      if (probes.size() >= 12) break;
    }
    for (auto& k : probes) {
      const std::string val = make_value(probe_val_base + (++pv), 9);
      op_begin(opn++);
      const bool ins = db.insert(KeyConv<Key>::make(k), unodb::value_view{reinterpret_cast<const std::byte*>(val.data()), val.size()});
      const bool rem = db.remove(KeyConv<Key>::make(k));
      op_end();
      if (!ins || !rem) fail(res, "final-probe", "insert+remove probe of fresh key " + hex(k) + " after the run returned " + (ins ? "true" : "false") + "/" + (rem ? "true" : "false"));
    }
    final_content = final_map;
  }

  // C10 (after concurrent phases, once everything has quiesced and drained)
  static void accounting(Db& db, Oracle&, Result& res) {
#ifdef UNODB_DETAIL_WITH_STATS
    const Shape sh = shape_of_map(final_content);
    const auto counts = db.get_node_counts();
    const uint64_t leaves = counts[unodb::as_i<unodb::node_type::LEAF>];
    const std::array<uint64_t, 4> in{counts[unodb::as_i<unodb::node_type::I4>], counts[unodb::as_i<unodb::node_type::I16>],
                                     counts[unodb::as_i<unodb::node_type::I48>], counts[unodb::as_i<unodb::node_type::I256>]};
    if (leaves != sh.leaves || in != sh.inodes)
      fail(res, "shape", "node counts after the concurrent phase (leaves " + std::to_string(leaves) + ", inner " + std::to_string(in[0]) + "/" + std::to_string(in[1]) + "/" +
                             std::to_string(in[2]) + "/" + std::to_string(in[3]) + ") differ from the radix tree of the final key set (leaves " + std::to_string(sh.leaves) + ", inner " +
                             std::to_string(sh.inodes[0]) + "/" + std::to_string(sh.inodes[1]) + "/" + std::to_string(sh.inodes[2]) + "/" + std::to_string(sh.inodes[3]) + ")");
    // counters move only when an inner node is created, replaced by one of another class, or dissolved: whatever the
    // interleaving was, creations minus dissolutions minus promotions plus demotions of a class is its current population
    {
      const auto g = db.get_growing_inode_counts();
      const auto s2 = db.get_shrinking_inode_counts();
      for (size_t i = 0; i < 4; i++) {
        const int64_t expect = static_cast<int64_t>(g[i]) - static_cast<int64_t>(s2[i]) - (i < 3 ? static_cast<int64_t>(g[i + 1]) - static_cast<int64_t>(s2[i + 1]) : 0);
        if (expect != static_cast<int64_t>(in[i]))
          fail(res, "counter-conservation", "growth/shrink counters imply " + std::to_string(expect) + " inner nodes of class #" + std::to_string(i) + " (created/promoted-in minus dissolved/promoted-out), the index reports " +
                                                std::to_string(in[i]) + ": a counter moved without its structural change (or the other way round)");
      }
    }
    int nb = 0;
    const size_t held = live_bytes(&nb);
    if (held != db.get_current_memory_use() || static_cast<uint64_t>(nb) != leaves + in[0] + in[1] + in[2] + in[3])
      fail(res, "memory-accounting", "after drain the allocator holds " + std::to_string(held) + " bytes in " + std::to_string(nb) + " blocks, the index reports " +
                                         std::to_string(db.get_current_memory_use()) + " bytes and " + std::to_string(leaves + in[0] + in[1] + in[2] + in[3]) + " nodes");
#else
    (void)db; (void)res;
#endif
  }

  static inline std::map<std::string, uint64_t> final_content;
};

Result run_u64(const Case& c, const std::vector<uint32_t>* measured);
Result run_kv(const Case& c, const std::vector<uint32_t>* measured);

}  // namespace sim::olc
