// simworker: seeded search over schedules and faults, replay, minimisation.
//
//   sim run      --engine E --tier T --seed-base B --count N --workers W --worker-index w
//                [--time-limit s] [--progress FILE] [--samples k] [--twice]
//   sim one      --engine E --tier T --seed S [--trace]
//   sim minimize --engine E --tier T --seed S --out FILE [--property ID]
//   sim replay   FILE [--trace]
//
// stdout protocol (one JSON document per line, prefixed):
//   RESULT {...}   a run that violated something (or, for `one`/`replay`, any run)
//   SAMPLE {...}   a complete case that was explored
//   STATS {...}    cumulative counters of this worker
#include <fcntl.h>
#include <sys/wait.h>
#include <unistd.h>

#include <chrono>
#include <fstream>
#include <set>
#include <sstream>
#include <tuple>
#include <unordered_set>

#include "sched.hpp"

namespace sim {
Engine* make_lock_engine();
Engine* make_olc_engine();
Engine* make_qsbr_engine();
Engine* make_seq_engine();
Engine* make_mutex_engine();
Engine* make_ptr_engine();
}  // namespace sim

using namespace sim;

namespace {

std::string g_tier = "quick";
std::string g_config = SIM_CONFIG_NAME;

Engine* make_engine(const std::string& n) {
#ifdef SIM_HAVE_LOCK
  if (n == "locksim") return make_lock_engine();
#endif
#ifdef SIM_HAVE_OLC
  if (n == "olcsim") return make_olc_engine();
#endif
#ifdef SIM_HAVE_QSBR
  if (n == "qsbrsim") return make_qsbr_engine();
#endif
#ifdef SIM_HAVE_SEQ
  if (n == "seqsim") return make_seq_engine();
#endif
#ifdef SIM_HAVE_MUTEX
  if (n == "mutexsim") return make_mutex_engine();
#endif
#ifdef SIM_HAVE_PTR
  if (n == "ptrsim") return make_ptr_engine();
#endif
  fprintf(stderr, "unknown engine %s\n", n.c_str());
  exit(2);
}

double now_s() {
  return std::chrono::duration<double>(std::chrono::steady_clock::now().time_since_epoch()).count();
}

// Expand one seed into a case: program from the program seed, schedule knobs from the seed.
struct Expander {
  Engine* eng;
  uint64_t cached_pseed = UINT64_MAX;
  Case cached_program;

  Case expand(uint64_t seed) {
    const uint64_t S = eng->schedules_per_program();
    const uint64_t pseed = seed - seed % S, j = seed % S;
    if (cached_pseed != pseed) {
      cached_program = eng->generate(pseed, g_tier);
      cached_pseed = pseed;
      eng->has_measured = false;
    }
    Case c = cached_program;
    c.seed = seed;
    c.set_knob("sched_index", static_cast<int64_t>(j));
    if (S > 1) c.set_knob("program_seed", static_cast<int64_t>(pseed & 0x7fffffffffffffffULL));
    Rng k = stream(seed, S_KNOBS);
    if (eng->systematic_sweep() && j >= 2) {
      // systematic double preemption over the three template threads: cell -> (order of the three, hook i of x, hook j of z)
      static const int perm[6][3] = {{1, 2, 3}, {1, 3, 2}, {2, 1, 3}, {2, 3, 1}, {3, 1, 2}, {3, 2, 1}};
      const uint64_t cell = j - 2, pi = cell % 6, rest = cell / 6;
      const int x = perm[pi][0], y = perm[pi][1], z = perm[pi][2];
      auto len0 = [&](int id) -> uint64_t { return static_cast<size_t>(id) < eng->measured_op0.size() && eng->measured_op0[static_cast<size_t>(id)] > 0 ? eng->measured_op0[static_cast<size_t>(id)] : 24; };
      const uint64_t Lx = len0(x) + 2, Lz = len0(z) + 2, grid = (S - 2) / 6;
      const uint64_t stride = std::max<uint64_t>(1, (Lx * Lz + grid - 1) / grid);  // thin the grid evenly if it does not fit
      const uint64_t lin = rest * stride + (k.below(stride));
      c.set_knob("strategy", ST_SWEEP2);
      c.set_knob("sw_x", x); c.set_knob("sw_y", y); c.set_knob("sw_z", z);
      c.set_knob("sw_i", static_cast<int64_t>(1 + lin % Lx)); c.set_knob("sw_j", static_cast<int64_t>(1 + (lin / Lx) % Lz));
      return c;
    }
    if (S == 1 || j == 0) {
      c.set_knob("strategy", ST_SEQUENTIAL);
    } else if (j == 1) {
      c.set_knob("strategy", ST_SEQUENTIAL);  // the other sequential schedule: threads take their turns in descending id order
      c.set_knob("order_desc", 1);
    } else {
      const auto x = k.below(100);
      if (c.knob("lockstep_pct", 0) > 0 && static_cast<int64_t>(k.below(100)) < c.knob("lockstep_pct", 0)) {
        // programs built in rounds (the generator says so): operation k of every thread before operation k+1 of any
        c.set_knob("strategy", ST_LOCKSTEP);
        const auto y = k.below(100);
        c.set_knob("sparam", y < 15 ? 0 : (y < 70 ? 1 : 2));
      } else if (x < 30) {
        c.set_knob("strategy", ST_PB);
        const auto y = k.below(100);
        c.set_knob("sparam", y < 50 ? 1 : (y < 85 ? 2 : 3));
      } else if (x < 60) {
        // conflict-directed: preempt a thread next to an access of a location that another thread writes (recorded on the
        // sequential schedule of the same program) and run that writer
        c.set_knob("strategy", ST_CONFLICT);
        const auto y = k.below(100);
        c.set_knob("sparam", y < 55 ? 1 : (y < 90 ? 2 : 3));
        c.set_knob("order_desc", k.chance(0.5) ? 1 : 0);
      } else if (x < 75) {
        c.set_knob("strategy", ST_PCT);
        c.set_knob("sparam", k.range(2, 4));
      } else if (x < 90) {
        c.set_knob("strategy", ST_RW);
        c.set_knob("sparam", k.range(0, 2));
      } else {
        c.set_knob("strategy", ST_RR);
        c.set_knob("sparam", k.range(1, 20));
      }
    }
    if (eng->uses_buggify() && j != 0) {
      c.set_knob("buggify_mask", k.chance(0.5) ? static_cast<int64_t>(k.below(256)) & ~1LL : 0);
      static const int64_t pcts[] = {5, 10, 30};
      c.set_knob("buggify_pct", pcts[k.below(3)]);
      c.set_knob("buggify_budget", k.range(1, 5));
    }
    return c;
  }

  // Make sure the sequential-schedule lengths of this program are known.
  void ensure_measured(uint64_t seed) {
    const uint64_t S = eng->schedules_per_program();
    if (S == 1 || seed % S == 0) return;
    const uint64_t pseed = seed - seed % S;
    if (cached_pseed == pseed && eng->has_measured) return;
    Case m = expand(pseed);
    set_die_context(pseed, eng->name());
    Result r = eng->run(m);
    (void)r;
    eng->measured = thread_lengths();
    eng->measured_op0 = thread_op0_hooks();
    eng->has_measured = true;
    if (seed % S != 1) {  // conflict points of the descending order as well
      Case d = expand(pseed + 1);
      set_die_context(pseed + 1, eng->name());
      Result r2 = eng->run(d);
      (void)r2;
    }
  }
};

J result_json(Engine* eng, const Case& c, const Result& r) {
  J j = J::obj();
  j.set("ok", r.ok).set("engine", eng->name()).set("seed", c.seed).set("class", r.vclass).set("detail", r.detail);
  j.set("known", r.known);
  j.set("hash", std::to_string(r.hash)).set("steps", r.steps).set("switches", r.switches);
  J sc = J::arr();
  for (auto& e : r.realised) { J ej = J::arr(); ej.push(e.thread).push(e.op).push(e.hook).push(e.to); sc.push(ej); }
  j.set("realised", sc);
  J fl = J::arr();
  for (auto& f : r.fired) { J fj = J::arr(); fj.push(f.thread).push(f.op).push(f.kind).push(f.k).push(f.site); fl.push(fj); }
  j.set("fired", fl);
  J rp = J::arr();
  for (int i = 0; i < 10; i++) rp.push(run_probe_count(i));
  j.set("run_probes", rp);
  return j;
}

J describe_case(Engine* eng, const Case& c) {
  J d = J::obj();
  J pf = J::arr();
  for (auto& o : c.prefill) pf.push(eng->describe(o));
  d.set("prefill", pf);
  J th = J::arr();
  for (auto& t : c.threads) { J tj = J::arr(); for (auto& o : t) tj.push(eng->describe(o)); th.push(tj); }
  d.set("threads", th);
  return d;
}

void emit(const char* tag, const J& j) {
  std::string s = std::string(tag) + " " + j.str() + "\n";
  fwrite(s.data(), 1, s.size(), stdout);
  fflush(stdout);
}

J stats_json(double wall, uint64_t nontrivial, uint64_t distinct, uint64_t known_hits) {
  Stats& st = stats();
  J j = J::obj();
  j.set("runs", st.runs).set("steps", st.steps).set("switches", st.switches).set("wall_s", wall);
  j.set("nontrivial", nontrivial).set("distinct_nontrivial", distinct).set("known_hits", known_hits);
  J kc = J::obj();
  static const char* kn[] = {"?", "lock_load", "lock_cas", "lock_store", "field_load", "field_store", "spin", "qsbr_state_load",
                             "qsbr_state_rmw", "qsbr_orphan_load", "qsbr_orphan_rmw", "qsbr_orphan_link", "fake_load", "fake_store",
                             "compiler_inserted_atomic_load", "compiler_inserted_atomic_store", "compiler_inserted_atomic_rmw", "", "", "", "alloc", "free", "mutex_lock", "mutex_unlock", "op_boundary", "harness",
                             "thread_start", "thread_end", "blocked"};
  for (int i = 1; i < 29; i++) if (kn[i][0] && st.kind_count[i]) kc.set(kn[i], st.kind_count[i]);
  j.set("hooks", kc);
  J pr = J::obj();
  static const char* pn[] = {"", "register_during_epoch_change", "register_waited_for_epoch_change", "unregister_during_epoch_change",
                             "unregister_cas_retry", "unregister_prepared_not_advancing", "orphan_tail_append", "register_cas_retry",
                             "change_epoch_cas_retry", "orphan_add_cas_retry"};
  for (int i = 1; i < 10; i++) pr.set(pn[i], st.probes[i]);
  j.set("probes", pr);
  J fa = J::obj();
  fa.set("alloc_failure", st.alloc_faults);
  uint64_t bt = 0;
  for (int i = 0; i < 8; i++) bt += st.buggify_fired[i];
  fa.set("spurious_weak_cas_failure", bt);
  fa.set("stalled_thread_preemption", st.preemptions);
  fa.set("forced_switches", st.forced_switches).set("spin_switches", st.spin_switches).set("mutex_blocks", st.mutex_blocks);
  j.set("faults", fa);
  J nm = J::obj();
  for (auto& kv : st.named) nm.set(kv.first, kv.second);
  j.set("counters", nm);
  return j;
}

std::string arg(int argc, char** argv, const char* name, const char* def = "") {
  for (int i = 1; i + 1 < argc; i++) if (!strcmp(argv[i], name)) return argv[i + 1];
  return def;
}
bool flag(int argc, char** argv, const char* name) {
  for (int i = 1; i < argc; i++) if (!strcmp(argv[i], name)) return true;
  return false;
}

// ---------------------------------------------------------------- run -----
int mode_run(int argc, char** argv) {
  Engine* eng = make_engine(arg(argc, argv, "--engine"));
  const uint64_t base = strtoull(arg(argc, argv, "--seed-base", "0").c_str(), nullptr, 10);
  const uint64_t count = strtoull(arg(argc, argv, "--count", "1000").c_str(), nullptr, 10);
  const uint64_t W = strtoull(arg(argc, argv, "--workers", "1").c_str(), nullptr, 10);
  const uint64_t w = strtoull(arg(argc, argv, "--worker-index", "0").c_str(), nullptr, 10);
  const double limit = atof(arg(argc, argv, "--time-limit", "1e9").c_str());
  const int nsamples = atoi(arg(argc, argv, "--samples", "2").c_str());
  const bool twice = flag(argc, argv, "--twice");
  const bool keep_going = flag(argc, argv, "--keep-going");
  const std::string progress = arg(argc, argv, "--progress");
  int pfd = -1;
  if (!progress.empty()) pfd = open(progress.c_str(), O_CREAT | O_WRONLY | O_TRUNC, 0644);
  Expander ex{eng};
  const uint64_t S = eng->schedules_per_program();
  FILE* hashes = getenv("SIM_RUN_HASHES") ? fopen(getenv("SIM_RUN_HASHES"), "w") : nullptr;
  std::unordered_set<uint64_t> distinct;
  uint64_t nontrivial = 0, known_hits = 0;
  int samples = 0;
  const double t0 = now_s();
  double last_stats = t0;
  uint64_t done = 0;
  // reach of the single-preemption schedules: per program, the distinct (thread, operation, hook) cells at which a PB-1
  // schedule preempted, against the number of hooks the simulated threads execute in the program's sequential schedule
  std::set<std::tuple<int, int, int>> pb1_cells;
  uint64_t pb1_program = UINT64_MAX, pb1_seq_hooks = 0;
  auto pb1_flush = [&] {
    if (!pb1_cells.empty() && pb1_seq_hooks > 0) {
      stats().bump("pb1_programs", 1);
      stats().bump("pb1_distinct_preemption_cells_hit", pb1_cells.size());
      stats().bump("pb1_hooks_in_sequential_schedules", pb1_seq_hooks);
    }
    pb1_cells.clear();
    pb1_seq_hooks = 0;
  };
  for (uint64_t s = base; s < base + count; s++) {
    if (((s / S) % W) != w) continue;
    if (now_s() - t0 > limit) break;
    if (pfd >= 0) {
      char buf[32];
      int n = snprintf(buf, sizeof buf, "%020llu\n", static_cast<unsigned long long>(s));
      if (pwrite(pfd, buf, static_cast<size_t>(n), 0) < 0) {}
    }
    ex.ensure_measured(s);
    Case c = ex.expand(s);
    set_die_context(s, eng->name());
    Result r = eng->run(c);
    if (s % S == 0 && S > 1) { eng->measured = thread_lengths(); eng->measured_op0 = thread_op0_hooks(); eng->has_measured = true; }
    if (S > 1) {
      if (s / S != pb1_program) { pb1_flush(); pb1_program = s / S; }
      if (s % S == 0) { pb1_seq_hooks = 0; const auto hc = thread_hook_counts(); for (size_t t = 1; t < hc.size(); t++) pb1_seq_hooks += hc[t]; }
      else if (c.knob("strategy", 0) == ST_PB && c.knob("sparam", 0) == 1)
        for (auto& e : r.realised) if (e.hook > 1) pb1_cells.insert({e.thread, e.op, e.hook});
    }
    if (twice && r.ok) {
      Result r2 = eng->run(c);
      if (r2.hash != r.hash || r2.ok != r.ok) {
        J j = result_json(eng, c, r);
        j.set("ok", false).set("class", "nondeterminism").set("detail", "same seed, different event-log hash in-process");
        emit("RESULT", j);
        return 2;
      }
    }
    done++;
    if (hashes) fprintf(hashes, "%llu %llu\n", static_cast<unsigned long long>(s), static_cast<unsigned long long>(r.hash));
    if (r.nontrivial) { nontrivial++; distinct.insert(r.hash); }
    if (r.known) known_hits++;
    if (!r.ok) {
      J j = result_json(eng, c, r);
      emit("RESULT", j);
      if (!(keep_going || r.known)) {
        emit("STATS", stats_json(now_s() - t0, nontrivial, distinct.size(), known_hits));
        fflush(stdout);
        _exit(3);
      }
    }
    if (samples < nsamples && r.ok && (r.nontrivial || S == 1) && (s % S != 0 || S == 1)) {
      samples++;
      J j = J::obj();
      j.set("seed", s).set("case", case_to_json(c)).set("described", describe_case(eng, c));
      J sc = J::arr();
      for (auto& e : r.realised) { J ej = J::arr(); ej.push(e.thread).push(e.op).push(e.hook).push(e.to); sc.push(ej); }
      j.set("realised_schedule", sc).set("steps", r.steps).set("switches", r.switches).set("hash", std::to_string(r.hash));
      emit("SAMPLE", j);
    }
    if (now_s() - last_stats > 5) {
      last_stats = now_s();
      emit("STATS", stats_json(now_s() - t0, nontrivial, distinct.size(), known_hits));
    }
  }
  if (hashes) fclose(hashes);
  pb1_flush();
  emit("STATS", stats_json(now_s() - t0, nontrivial, distinct.size(), known_hits));
  printf("DONE %llu\n", static_cast<unsigned long long>(done));
  fflush(stdout);
  _exit(0);
}

// -------------------------------------------------------------- sweep -----
// Experiment mode: for each program, preempt once at EVERY recorded conflict point (both sides, both thread orders).
int mode_sweep(int argc, char** argv) {
  Engine* eng = make_engine(arg(argc, argv, "--engine"));
  const uint64_t base = strtoull(arg(argc, argv, "--seed-base", "0").c_str(), nullptr, 10);
  const uint64_t count = strtoull(arg(argc, argv, "--count", "10").c_str(), nullptr, 10);
  const uint64_t W = strtoull(arg(argc, argv, "--workers", "1").c_str(), nullptr, 10);
  const uint64_t w = strtoull(arg(argc, argv, "--worker-index", "0").c_str(), nullptr, 10);
  Expander ex{eng};
  const uint64_t S = eng->schedules_per_program();
  uint64_t runs = 0;
  for (uint64_t prog = 0; prog < count; prog++) {
    if (prog % W != w) continue;
    const uint64_t pseed = (base / S + prog) * S;
    ex.ensure_measured(pseed + 2);
    for (int o = 0; o < 2; o++) {
      const size_t n = conflict_point_count(o);
      for (size_t i = 0; i < n; i++)
        for (int side = 0; side < 2; side++) {
          Case c = ex.expand(pseed + 2);
          c.set_knob("strategy", ST_CONFLICT); c.set_knob("sparam", 1); c.set_knob("order_desc", o);
          c.set_knob("cidx", static_cast<int64_t>(i)); c.set_knob("cside", side);
          set_die_context(pseed + 2, eng->name());
          Result r = eng->run(c);
          runs++;
          if (!r.ok) { J j = result_json(eng, c, r); j.set("program", pseed).set("cidx", static_cast<uint64_t>(i)).set("cside", side).set("order", o); emit("RESULT", j); }
        }
    }
  }
  printf("DONE %llu\n", static_cast<unsigned long long>(runs));
  fflush(stdout);
  _exit(0);
}

// ---------------------------------------------------------------- one -----
int mode_one(int argc, char** argv) {
  Engine* eng = make_engine(arg(argc, argv, "--engine"));
  const uint64_t s = strtoull(arg(argc, argv, "--seed", "0").c_str(), nullptr, 10);
  Expander ex{eng};
  ex.ensure_measured(s);
  Case c = ex.expand(s);
  set_die_context(s, eng->name());
  if (flag(argc, argv, "--trace")) enable_trace(true);
  Result r = eng->run(c);
  J j = result_json(eng, c, r);
  if (flag(argc, argv, "--show-case")) j.set("case", case_to_json(c)).set("described", describe_case(eng, c));
  if (flag(argc, argv, "--trace")) { J tr = J::arr(); for (auto& l : trace()) tr.push(l); j.set("trace", tr); }
  emit("RESULT", j);
  _exit(r.ok ? 0 : 3);
}

// ----------------------------------------------------------- children -----
struct ChildOutcome { bool ok = true; bool infra = false; std::string vclass, detail, hash; J json; };

// Run a case in a forked child (a failing run may kill its process).
ChildOutcome run_in_child(Engine* eng, const Case& c) {
  ChildOutcome out;
  int fds[2];
  if (pipe(fds) != 0) { out.infra = true; return out; }
  fflush(stdout);
  pid_t pid = fork();
  if (pid == 0) {
    close(fds[0]);
    dup2(fds[1], 1);
    close(fds[1]);
    int devnull = open("/dev/null", O_WRONLY);
    if (devnull >= 0) dup2(devnull, 2);
    alarm(getenv("SIM_CHILD_ALARM") ? static_cast<unsigned>(atoi(getenv("SIM_CHILD_ALARM"))) : 60);
    set_die_context(c.seed, eng->name());
    Result r = eng->run(c);
    J j = result_json(eng, c, r);
    std::string s = "RESULT " + j.str() + "\n";
    if (write(1, s.data(), s.size()) < 0) {}
    _exit(r.ok ? 0 : 3);
  }
  close(fds[1]);
  std::string buf;
  char tmp[4096];
  ssize_t n;
  while ((n = read(fds[0], tmp, sizeof tmp)) > 0) buf.append(tmp, static_cast<size_t>(n));
  close(fds[0]);
  int status = 0;
  waitpid(pid, &status, 0);
  size_t pos = buf.rfind("RESULT ");
  if (pos != std::string::npos) {
    size_t e = buf.find('\n', pos);
    J j;
    if (J::parse(buf.substr(pos + 7, e == std::string::npos ? std::string::npos : e - pos - 7), j)) {
      out.json = j;
      if (auto* p = j.get("ok")) out.ok = p->b;
      out.vclass = j.gets("class"); out.detail = j.gets("detail"); out.hash = j.gets("hash");
      return out;
    }
  }
  // died without a RESULT line: sanitizer or signal
  out.ok = false;
  if (WIFEXITED(status) && WEXITSTATUS(status) == 77) { out.vclass = "asan"; out.detail = "AddressSanitizer report (exit 77)"; }
  else if (WIFEXITED(status) && WEXITSTATUS(status) == 78) { out.vclass = "ubsan"; out.detail = "UndefinedBehaviorSanitizer report (exit 78)"; }
  else if (WIFSIGNALED(status) && WTERMSIG(status) == SIGALRM) { out.vclass = "hang"; out.detail = "no result within 60 s wall clock"; }
  else if (WIFSIGNALED(status)) { out.vclass = "signal"; out.detail = "killed by signal " + std::to_string(WTERMSIG(status)); }
  else { out.vclass = "died"; out.detail = "exit status " + std::to_string(WIFEXITED(status) ? WEXITSTATUS(status) : -1); }
  return out;
}

std::vector<SchedEntry> sched_from(const J& j, const char* key) {
  std::vector<SchedEntry> v;
  if (auto* s = j.get(key)) for (auto& e : s->a) if (e.a.size() >= 4) v.push_back({static_cast<int>(e.a[0].i), static_cast<int>(e.a[1].i), static_cast<int>(e.a[2].i), static_cast<int>(e.a[3].i)});
  return v;
}
std::vector<FaultEntry> faults_from(const J& j, const char* key) {
  std::vector<FaultEntry> v;
  if (auto* s = j.get(key)) for (auto& e : s->a) if (e.a.size() >= 5) v.push_back({static_cast<int>(e.a[0].i), static_cast<int>(e.a[1].i), static_cast<int>(e.a[2].i), static_cast<int>(e.a[3].i), static_cast<int>(e.a[4].i)});
  return v;
}

// ----------------------------------------------------------- minimize -----
int mode_minimize(int argc, char** argv) {
  Engine* eng = make_engine(arg(argc, argv, "--engine"));
  const uint64_t s = strtoull(arg(argc, argv, "--seed", "0").c_str(), nullptr, 10);
  const std::string out_path = arg(argc, argv, "--out");
  const std::string property = arg(argc, argv, "--property");
  Expander ex{eng};
  ex.ensure_measured(s);
  Case c = ex.expand(s);
  // 1. original failure
  ChildOutcome first = run_in_child(eng, c);
  if (first.ok) { printf("MINIMIZE not-failing\n"); return 2; }
  const std::string vclass = first.vclass;
  // 2. explicit form: realised schedule and delivered faults instead of PRNG decisions
  Case e = c;
  e.explicit_schedule = true;
  e.sched = sched_from(first.json, "realised");
  {
    auto fired = faults_from(first.json, "fired");
    std::vector<FaultEntry> nf;
    for (auto& f : c.faults) if (f.kind == 1) nf.push_back(f);  // armed allocation faults stay attached to their op
    for (auto& f : fired) if (f.kind == 2) nf.push_back(f);
    e.faults = nf;
  }
  e.set_knob("strategy", ST_SEQUENTIAL);
  ChildOutcome ex1 = run_in_child(eng, e);
  if (ex1.ok || ex1.vclass != vclass) {
    printf("MINIMIZE explicit-form-does-not-reproduce (%s vs %s)\n", vclass.c_str(), ex1.vclass.c_str());
    return 2;
  }
  int tries = 2;
  auto fails = [&](const Case& cand) {
    tries++;
    ChildOutcome o = run_in_child(eng, cand);
    return !o.ok && o.vclass == vclass;
  };
  bool progress = !flag(argc, argv, "--no-shrink");  // the full-speed probes take seconds per run and are minimal already
  int rounds = 0;
  while (progress && rounds++ < 6 && tries < 1500) {
    progress = false;
    // faults
    for (size_t i = e.faults.size(); i-- > 0;) {
      Case cand = e; cand.faults.erase(cand.faults.begin() + static_cast<long>(i));
      if (fails(cand)) { e = cand; progress = true; }
    }
    // schedule entries: try dropping all, halves, then one at a time
    if (!e.sched.empty()) {
      Case cand = e; cand.sched.clear();
      if (fails(cand)) { e = cand; progress = true; }
    }
    for (size_t chunk = e.sched.size() / 2; chunk >= 1 && !e.sched.empty(); chunk /= 2) {
      for (size_t i = 0; i + chunk <= e.sched.size();) {
        Case cand = e;
        cand.sched.erase(cand.sched.begin() + static_cast<long>(i), cand.sched.begin() + static_cast<long>(i + chunk));
        if (fails(cand)) { e = cand; progress = true; } else i += chunk;
      }
      if (chunk == 1) break;
    }
    // whole threads
    for (size_t t = e.threads.size(); t-- > 0;) {
      Case cand = e;
      if (!eng->remove_thread(cand, t)) continue;
      if (fails(cand)) { e = cand; progress = true; }
    }
    // operations
    for (size_t t = 0; t < e.threads.size(); t++)
      for (size_t i = e.threads[t].size(); i-- > 0;) {
        Case cand = e;
        if (!eng->remove_op(cand, t, i)) continue;
        if (fails(cand)) { e = cand; progress = true; }
      }
    // prefill: halves then singles
    for (size_t chunk = e.prefill.size() / 2; chunk >= 1 && !e.prefill.empty(); chunk /= 2) {
      for (size_t i = 0; i + chunk <= e.prefill.size();) {
        Case cand = e;
        cand.prefill.erase(cand.prefill.begin() + static_cast<long>(i), cand.prefill.begin() + static_cast<long>(i + chunk));
        if (fails(cand)) { e = cand; progress = true; } else i += chunk;
      }
      if (chunk == 1) break;
    }
    // engine-specific simplification
    bool again = true;
    int guard = 0;
    while (again && guard++ < 50) {
      again = false;
      for (auto& cand : eng->simplify(e))
        if (fails(cand)) { e = cand; progress = true; again = true; break; }
    }
  }
  ChildOutcome fin = run_in_child(eng, e);
  if (fin.ok || fin.vclass != vclass) { printf("MINIMIZE final-candidate-does-not-reproduce\n"); return 2; }
  J j = J::obj();
  j.set("property", property).set("engine", eng->name()).set("tier", g_tier).set("build_config", g_config);
  j.set("seed", s);
  J v = J::obj();
  v.set("class", fin.vclass).set("detail", fin.detail);
  j.set("violation", v);
  j.set("expected_hash", fin.hash);
  j.set("case", case_to_json(e));
  j.set("described", describe_case(eng, e));
  J orig = J::obj();
  orig.set("ops", static_cast<uint64_t>(c.total_ops())).set("prefill", static_cast<uint64_t>(c.prefill.size()))
      .set("threads", static_cast<uint64_t>(c.threads.size())).set("schedule_entries", static_cast<uint64_t>(sched_from(first.json, "realised").size()));
  j.set("original_size", orig);
  J mini = J::obj();
  mini.set("ops", static_cast<uint64_t>(e.total_ops())).set("prefill", static_cast<uint64_t>(e.prefill.size()))
      .set("threads", static_cast<uint64_t>(e.threads.size())).set("schedule_entries", static_cast<uint64_t>(e.sched.size()))
      .set("faults", static_cast<uint64_t>(e.faults.size())).set("candidates_tried", tries);
  j.set("minimised_size", mini);
  std::ofstream f(out_path);
  f << j.str() << "\n";
  f.close();
  printf("MINIMIZED %s class=%s tries=%d\n", out_path.c_str(), vclass.c_str(), tries);
  return 0;
}

// ------------------------------------------------------------- replay -----
int mode_replay(int argc, char** argv) {
  if (argc < 3) return 2;
  std::ifstream f(argv[2]);
  std::stringstream ss;
  ss << f.rdbuf();
  J j;
  if (!J::parse(ss.str(), j)) { fprintf(stderr, "cannot parse %s\n", argv[2]); return 2; }
  Engine* eng = make_engine(j.gets("engine"));
  g_tier = j.gets("tier", "quick");
  const J* cj = j.get("case");
  if (!cj) return 2;
  Case c = case_from_json(*cj);
  set_die_context(c.seed, eng->name());
  if (flag(argc, argv, "--trace")) enable_trace(true);
  Result r = eng->run(c);
  J out = result_json(eng, c, r);
  if (flag(argc, argv, "--trace")) { J tr = J::arr(); for (auto& l : trace()) tr.push(l); out.set("trace", tr); }
  emit("RESULT", out);
  _exit(r.ok ? 0 : 3);
}

}  // namespace

int main(int argc, char** argv) {
  if (argc < 2) { fprintf(stderr, "usage: sim run|one|minimize|replay ...\n"); return 2; }
  setvbuf(stdout, nullptr, _IOLBF, 0);
  g_tier = arg(argc, argv, "--tier", "quick");
  init_process();
  const std::string mode = argv[1];
  if (mode == "run") return mode_run(argc, argv);
  if (mode == "one") return mode_one(argc, argv);
  if (mode == "sweep") return mode_sweep(argc, argv);
  if (mode == "minimize") return mode_minimize(argc, argv);
  if (mode == "replay") return mode_replay(argc, argv);
  if (mode == "case") {
    Engine* eng = make_engine(arg(argc, argv, "--engine"));
    Expander ex{eng};
    Case c = ex.expand(strtoull(arg(argc, argv, "--seed", "0").c_str(), nullptr, 10));
    J j = J::obj();
    j.set("case", case_to_json(c)).set("described", describe_case(eng, c));
    emit("CASE", j);
    return 0;
  }
  if (mode == "config") { printf("%s\n", g_config.c_str()); return 0; }
  fprintf(stderr, "unknown mode %s\n", mode.c_str());
  return 2;
}
