// seqsim engine: generator, dispatch over the six index instantiations, the
// forked execution of histories that pass through non-representable key sets
// (known finding D1), and the per-seed hashes used by the configuration matrix.
#include <fcntl.h>
#include <sys/wait.h>
#include <unistd.h>

#include <set>

#include "eng_seq.hpp"

namespace sim::seq {
namespace {

struct PoolGen {
  Rng& r;
  int L;
  std::vector<int> pos;
  size_t cap;
  std::vector<std::string> keys;

  std::vector<int> bytes(size_t n) {
    std::set<int> s;
    if (n >= 2 && r.chance(0.35)) s.insert(0x00);
    if (n >= 2 && r.chance(0.35)) s.insert(0xFF);
    if (n >= 200) { for (int i = 0; i < 256 && s.size() < n; i++) s.insert(i); }
    else if (r.chance(0.3)) { const int start = static_cast<int>(r.below(256 - n + 1)); for (size_t i = 0; i < n; i++) s.insert(start + static_cast<int>(i)); }
    while (s.size() < n) s.insert(static_cast<int>(r.below(256)));
    std::vector<int> v(s.begin(), s.end());
    for (size_t i = v.size(); i > 1; i--) std::swap(v[i - 1], v[r.below(i)]);
    v.resize(n);
    return v;
  }
  size_t fanout(size_t level) {
    static const size_t small[] = {1, 2, 2, 3, 3, 4, 4, 5, 5, 6};
    static const size_t mid[] = {15, 16, 17, 18};
    static const size_t big[] = {47, 48, 49, 50};
    const auto x = r.below(100);
    if (level == 0) {
      if (x < 40) return small[r.below(10)];
      if (x < 65) return mid[r.below(4)];
      if (x < 88) return big[r.below(4)];
      return 200 + r.below(57);
    }
    if (x < 70) return small[r.below(10)];
    if (x < 88) return mid[r.below(4)];
    return big[r.below(4)];
  }
  void gen(std::string key, size_t level) {
    if (keys.size() >= cap) return;
    if (level == pos.size()) { keys.push_back(key); return; }
    const size_t f = fanout(level);
    for (int b : bytes(f)) {
      key[static_cast<size_t>(pos[level])] = static_cast<char>(b);
      if (level + 1 < pos.size() && !r.chance(level == 0 ? 0.55 : 0.4)) gen(key, level + 1);
      else if (keys.size() < cap) keys.push_back(key);
    }
  }
};

struct SeqEngine final : Engine {
  const char* name() const override { return "seqsim"; }

  Case generate(uint64_t seed, const std::string& tier) override {
    Case c;
    c.engine = name();
    c.seed = seed;
    Rng r = stream(seed, S_WORKLOAD);
    const char* fe = getenv("SIM_FOCUS");
    const int focus = fe ? atoi(fe) : 0;
    c.set_knob("focus", focus);
    const auto dx = r.below(100);
    const int dbkind = dx < 40 ? 0 : (dx < 60 ? 1 : 2);
    const int keykind = r.chance(0.55) ? 0 : 1;
    c.set_knob("dbkind", dbkind);
    c.set_knob("keykind", keykind);
    int nthreads = 1;
    if (dbkind == 1 && r.chance(0.5)) nthreads = static_cast<int>(r.range(2, 3));
    if (dbkind == 2 && r.chance(0.6)) nthreads = static_cast<int>(r.range(2, 3));
    if (focus == 8) nthreads = 1;  // the property scopes the OLC index to a single registered thread
    c.set_knob("nthreads", nthreads);
    c.set_knob("sim_threads", nthreads);
    const bool nonrep = focus == 1 && keykind == 1 && r.chance(0.1);
    c.set_knob("nonrep", nonrep ? 1 : 0);
    // ---- key pool
    int L = 8;
    if (keykind == 1) L = focus == 16 ? static_cast<int>(r.range(1, 8)) : (nonrep ? static_cast<int>(r.range(10, 24)) : static_cast<int>(r.range(1, 24)));
    std::vector<std::string> pool;
    bool deep = false;
    const auto shape = r.below(100);
    const size_t cap = focus == 8 ? (r.chance(0.2) ? 110 : 70) : (tier == "thorough" ? 600 : 320);
    std::string base(static_cast<size_t>(L), '\0');
    for (auto& ch : base) ch = static_cast<char>(r.chance(0.2) ? (r.chance(0.5) ? 0x00 : 0xFF) : static_cast<int>(r.below(256)));
    if (shape < 12 && !nonrep) {  // dense range ending in the last byte(s)
      const size_t n = 2 + r.below(cap - 2);
      uint64_t start = r.below(1 << 16);
      for (size_t i = 0; i < n; i++) {
        std::string k = base;
        uint64_t v = start + i;
        // the counter sits within the first 8 bytes, so that every subset stays representable
        const int last = std::min(L, 8) - 1;
        for (int b = 0; b < std::min(L, 3); b++) { k[static_cast<size_t>(last - b)] = static_cast<char>(v & 0xff); v >>= 8; }
        pool.push_back(k);
      }
    } else if (shape < 22 && !nonrep && L <= 8) {  // sparse random keys
      const size_t n = 2 + r.below(std::min<size_t>(cap, 200));
      std::set<std::string> s;
      while (s.size() < n) { std::string k(static_cast<size_t>(L), '\0'); for (auto& ch : k) ch = static_cast<char>(r.below(256)); s.insert(k); if (L == 1 && s.size() >= 256) break; }
      pool.assign(s.begin(), s.end());
    } else {
      // deep byte-string shape: branching positions anywhere in a long key, consecutive ones at most 8 apart, so the
      // full pool has compressed paths <= 7 bytes; a *subset* may not (a missing middle branch joins two paths), so the
      // history generator below keeps the key set representable step by step with the reference radix tree M2
      deep = keykind == 1 && !nonrep && L >= 10 && focus != 16 && r.chance(0.55);
      const int maxpos = (nonrep || deep) ? L - 1 : std::min(L - 1, 7);
      const int nb = std::min<int>(static_cast<int>(r.range(1, 3)), maxpos + 1);
      std::set<int> ps;
      if (deep) {
        int p = static_cast<int>(r.below(8));
        const int want = static_cast<int>(r.range(2, 4));
        while (p < L && static_cast<int>(ps.size()) < want) { ps.insert(p); p += 1 + static_cast<int>(r.below(8)); }
      } else if (nonrep) {  // at least one compressed path longer than 7 bytes
        const int first = static_cast<int>(r.below(static_cast<uint64_t>(L - 9)));
        ps.insert(first);
        ps.insert(first + 9 + static_cast<int>(r.below(static_cast<uint64_t>(L - first - 9))));
        if (r.chance(0.5)) ps.insert(static_cast<int>(r.below(static_cast<uint64_t>(L))));
      } else {
        while (static_cast<int>(ps.size()) < nb) ps.insert(static_cast<int>(r.below(static_cast<uint64_t>(maxpos + 1))));
      }
      PoolGen pg{r, L, std::vector<int>(ps.begin(), ps.end()), cap, {}};
      pg.gen(base, 0);
      std::set<std::string> s(pg.keys.begin(), pg.keys.end());
      pool.assign(s.begin(), s.end());
    }
    // "full node" shape: all 256 byte values at one position (plus a few keys one level below), inserted in bulk at the
    // start of the history, so that a node with exactly 256 children (children count wraps to 0 in a byte) exists when
    // later operations, clear() and the destructor run
    Rng br = stream(seed, S_WORKLOAD + 32);
    const bool bulk = !nonrep && br.chance(0.05);
    // half of them "gapped": the byte values next to 0x00 and next to 0xFF (and 0x00 / 0xFF themselves now and then) are left
    // out of the bulk insertion, so that the big node has its first and last children next to runs of empty slots - where the
    // "nearest child at or below / at or above this byte" searches of bounded scans start or end
    size_t bulk_pos = 0;
    int gap_lo = 0, gap_hi = 0;
    bool gap_00 = false, gap_ff = false;
    if (bulk) {
      pool.clear();
      deep = false;
      const size_t p = br.below(static_cast<uint64_t>(std::min(L, 8)));
      bulk_pos = p;
      if (br.chance(0.5)) { gap_lo = static_cast<int>(br.range(1, 60)); gap_hi = static_cast<int>(br.range(1, 60)); gap_00 = br.chance(0.25); gap_ff = br.chance(0.25); }
      for (int b = 0; b < 256; b++) { std::string k = base; k[p] = static_cast<char>(b); pool.push_back(k); }
      if (p + 1 < static_cast<size_t>(std::min(L, 8)) && br.chance(0.5))
        for (int i = 0; i < 6; i++) { std::string k = base; k[p] = static_cast<char>(br.below(256)); k[p + 1] = static_cast<char>(k[p + 1] ^ (1 + i)); pool.push_back(k); }
      std::sort(pool.begin(), pool.end());
      pool.erase(std::unique(pool.begin(), pool.end()), pool.end());
    }
    c.set_knob("bulk", bulk ? 1 : 0);
    if (bulk && focus == 8) c.set_knob("budget", 200000000);  // hooks stay active in C08 runs; 256+ keys are re-read after every injected fault
    if (pool.size() < 2) { std::string k = base; k[0] = static_cast<char>(k[0] ^ 1); pool.push_back(base); pool.push_back(k); }
    // variable-length byte-string keys: every key is cut somewhere beyond the byte that tells it from its nearest
    // neighbours, which keeps the pool prefix-free (the index's contract) while stored keys end at different depths
    bool varlen = false, varbound = false;
    if (keykind == 1 && L >= 2) {
      Rng vr = stream(seed, S_WORKLOAD + 16);
      varlen = vr.chance(0.35);
      varbound = vr.chance(0.35);
      if (getenv("SIM_NO_VARBOUND")) varbound = false;
      if (varlen) {
        std::sort(pool.begin(), pool.end());
        pool.erase(std::unique(pool.begin(), pool.end()), pool.end());
        auto lcp = [](const std::string& a, const std::string& b) { size_t i = 0; while (i < a.size() && i < b.size() && a[i] == b[i]) i++; return i; };
        std::vector<size_t> minlen(pool.size(), 1);
        for (size_t i = 0; i < pool.size(); i++) {
          if (i > 0) minlen[i] = std::max(minlen[i], lcp(pool[i - 1], pool[i]) + 1);
          if (i + 1 < pool.size()) minlen[i] = std::max(minlen[i], lcp(pool[i], pool[i + 1]) + 1);
        }
        for (size_t i = 0; i < pool.size(); i++) {
          const size_t full = pool[i].size();
          if (minlen[i] >= full) continue;
          const auto x = vr.below(100);
          const size_t len = x < 40 ? minlen[i] : (x < 65 ? full : minlen[i] + vr.below(full - minlen[i] + 1));
          pool[i].resize(len);
        }
      }
    }
    c.set_knob("varlen", varlen ? 1 : 0);
    c.set_knob("varbound", varbound ? 1 : 0);
    for (size_t i = pool.size(); i > 1; i--) std::swap(pool[i - 1], pool[r.below(i)]);
    // ---- history
    const int maxops = focus == 8 ? (cap > 70 ? 200 : 120) : (tier == "thorough" ? 400 : 250);
    const int nops = static_cast<int>(r.range(20, maxops));
    const int nphases = static_cast<int>(r.range(1, 3));
    std::set<std::string> present;
    std::vector<Op> ops;
    uint64_t vid = 0;
    int deep_skipped = 0;
    const bool with_scans = focus == 2 || focus == 16 || focus == 0 || (focus == 10 && r.chance(0.3));
    const double scan_rate = focus == 2 ? 0.28 : 0.08;
    auto pick_present = [&]() -> std::string {
      if (present.empty()) return pool[r.below(pool.size())];
      auto it = present.lower_bound(pool[r.below(pool.size())]);
      if (it == present.end()) it = present.begin();
      return *it;
    };
    auto pick_absent = [&]() -> std::string {
      for (int tries = 0; tries < 8; tries++) { const auto& k = pool[r.below(pool.size())]; if (!present.count(k)) return k; }
      return pool[r.below(pool.size())];
    };
    auto pick_bound = [&]() -> std::string {
      const auto x = r.below(100);
      if (x < 40) return pool[r.below(pool.size())];
      if (x < 50) return std::string(static_cast<size_t>(L), '\0');
      if (x < 60) return std::string(static_cast<size_t>(L), static_cast<char>(0xFF));
      std::string k = r.chance(0.7) ? pick_present() : pool[r.below(pool.size())];
      const size_t p = r.below(static_cast<uint64_t>(std::min<size_t>(k.size(), deep ? static_cast<size_t>(L) : 9)));
      const auto y = r.below(4);
      const auto cur = static_cast<unsigned char>(k[p]);
      k[p] = static_cast<char>(y == 0 ? cur + 1 : (y == 1 ? cur - 1 : (y == 2 ? 0x00 : 0xFF)));
      if (r.chance(0.3)) for (size_t q = p + 1; q < k.size(); q++) k[q] = static_cast<char>(r.chance(0.5) ? 0x00 : 0xFF);
      return k;
    };
    // bounds need not have the length of any stored key: a proper prefix of stored keys ("everything starting with ab"),
    // or a stored key with extra bytes appended
    auto vary_bound = [&](std::string k) -> std::string {
      if (!varbound || k.empty()) return k;
      const auto x = r.below(100);
      if (x < 3) k.clear();  // the empty bound: below every key
      else if (x < 35) k.resize(1 + r.below(k.size()));
      else if (x < 55) { const size_t extra = 1 + r.below(3); for (size_t i = 0; i < extra && k.size() < 60; i++) k.push_back(static_cast<char>(r.chance(0.4) ? 0x00 : (r.chance(0.5) ? 0xFF : static_cast<int>(r.below(256))))); }
      return k;
    };
    if (bulk) {
      std::vector<std::string> order = pool;
      for (size_t i = order.size(); i > 1; i--) std::swap(order[i - 1], order[br.below(i)]);
      const size_t n = br.chance(0.7) ? order.size() : order.size() - br.below(3);
      for (size_t i = 0; i < n; i++) {
        if (gap_lo > 0 && order[i].size() > bulk_pos) {
          const int b = static_cast<unsigned char>(order[i][bulk_pos]);
          if ((b >= 1 && b <= gap_lo) || (b <= 254 && b >= 255 - gap_hi) || (b == 0 && gap_00) || (b == 255 && gap_ff)) continue;
        }
        Op o; o.kind = S_INSERT; o.key = order[i]; o.key2 = std::string(static_cast<size_t>(L), '\0');
        o.a = static_cast<int64_t>(++vid); o.b = br.range(0, 12); o.d = static_cast<int64_t>(br.below(static_cast<uint64_t>(nthreads)));
        present.insert(o.key);
        ops.push_back(std::move(o));
      }
    }
    Rng fr = stream(seed, S_FAULT);
    Rng lr = stream(seed, S_WORKLOAD + 80);
    for (int i = 0; i < nops; i++) {
      const int phase = i * nphases / nops;
      static const double ins_bias[] = {0.75, 0.25, 0.5};
      const double pi = ins_bias[(static_cast<uint64_t>(phase) + seed) % 3];
      Op o;
      o.d = static_cast<int64_t>(r.below(static_cast<uint64_t>(nthreads)));
      const double x = static_cast<double>(r.below(10000)) / 10000.0;
      if (with_scans && x < scan_rate) {
        const auto sk = r.below(100);
        o.kind = sk < 20 ? S_SCAN : (sk < 55 ? S_SCAN_FROM : S_SCAN_RANGE);
        o.a = r.chance(0.55) ? 1 : 0;
        o.b = r.chance(0.3) ? (r.chance(0.75) ? r.range(1, 6) : r.range(1, static_cast<int64_t>(present.size()) + 2)) : -1;  // halt position: early, or anywhere up to past the end
        o.c = r.chance(0.5) ? 1 : 0;
        o.key = vary_bound(pick_bound());
        o.key2 = vary_bound(pick_bound());
        if (r.chance(0.08)) o.key2 = o.key;
        if (varbound && o.kind == S_SCAN_RANGE && br.chance(0.25)) {
          // a prefix interval the way callers usually build it: both bounds are views into ONE buffer, one a proper
          // prefix of the other ([P, P+suffix) or (P+suffix, P]); bit 1 of c asks for that placement
          std::string longer = o.key;
          const size_t extra = 1 + br.below(3);
          for (size_t i = 0; i < extra && longer.size() < 60; i++) longer.push_back(static_cast<char>(br.chance(0.5) ? 0xFF : static_cast<int>(br.below(256))));
          if (br.chance(0.5)) o.key2 = longer; else { o.key2 = o.key; o.key = longer; }
          o.c |= 2;
        }
      } else if (x < scan_rate + 0.02) {
        o.kind = S_EMPTY;
      } else if (x < scan_rate + 0.028 && !(dbkind == 2 && nthreads > 1)) {
        o.kind = S_CLEAR;
        present.clear();
      } else if (dbkind == 2 && x < scan_rate + 0.12) {
        o.kind = r.chance(0.75) ? S_QUIESCE : S_PAUSE_RESUME;
      } else if (focus == 8 && x < scan_rate + 0.16) {
        o.kind = S_LENGTH_ERROR;
        o.key = pick_absent();
        o.b = static_cast<int64_t>(r.below(1000));
        o.c = (keykind == 1 && r.chance(0.5)) ? 1 : 0;
      } else {
        const double y = static_cast<double>(r.below(10000)) / 10000.0;
        if (varbound && br.chance(0.08)) {
          // point lookups with keys of other lengths than the stored ones: a proper prefix or an extension of a pool key is
          // never stored (the pool is prefix-free) and never changes the key set, so get must miss and remove must fail
          o.kind = br.chance(0.5) ? S_GET : S_REMOVE;
          std::string k = r.chance(0.7) ? pick_present() : pool[r.below(pool.size())];
          if (br.chance(0.04)) k.clear();  // the empty key: a proper prefix of every key
          else if (k.size() > 1 && br.chance(0.6)) k.resize(1 + br.below(k.size() - 1));
          else { const size_t extra = 1 + br.below(3); for (size_t e = 0; e < extra; e++) k.push_back(static_cast<char>(br.chance(0.4) ? 0x00 : static_cast<int>(br.below(256)))); }
          o.key = k;
        } else if (y < 0.22) {
          o.kind = S_GET;
          o.key = r.chance(0.7) ? pick_present() : pick_absent();
          if ((focus == 1 || focus == 16) && lr.chance(0.2)) o.c = 4;  // look / modify / look in straight-line code first
        } else if (y < 0.22 + 0.78 * pi) {
          o.kind = S_INSERT;
          o.key = r.chance(0.88) ? pick_absent() : pick_present();
          o.a = static_cast<int64_t>(++vid);
          const auto lx = r.below(100);
          o.b = lx < 15 ? r.range(0, 7) : (lx < 96 || focus == 8 || focus == 16 ? r.range(8, 40) : r.range(300, 5000));
          if (deep && !present.count(o.key)) {
            present.insert(o.key);
            if (!shape_of(present).representable) { present.erase(o.key); o.kind = S_GET; deep_skipped++; }
          } else {
            present.insert(o.key);
          }
        } else {
          o.kind = S_REMOVE;
          o.key = r.chance(0.88) ? pick_present() : pick_absent();
          if (deep && present.count(o.key)) {
            present.erase(o.key);
            if (!shape_of(present).representable) { present.insert(o.key); o.kind = S_GET; deep_skipped++; }
          } else {
            present.erase(o.key);
          }
        }
      }
      // unused key fields are zero-filled; an empty key or bound produced on purpose (varbound) stays empty
      const bool key_used = o.kind == S_GET || o.kind == S_REMOVE || o.kind == S_SCAN_FROM || o.kind == S_SCAN_RANGE;
      if (o.key2.empty() && !(varbound && o.kind == S_SCAN_RANGE)) o.key2 = std::string(static_cast<size_t>(L), '\0');
      if (o.key.empty() && !(varbound && key_used)) o.key = std::string(static_cast<size_t>(L), '\0');
      // C10: statistics and memory accounting must match the key set after *failed* operations as well
      if (focus == 10 && (o.kind == S_INSERT || o.kind == S_REMOVE) && fr.chance(0.04)) o.c = fr.range(1, 2);
      ops.push_back(std::move(o));
    }
    c.threads.push_back(std::move(ops));
    c.set_knob("deep", deep ? 1 : 0);
    (void)deep_skipped;
    if (focus == 8 && dbkind == 2) c.set_knob("qsbr_faults", r.chance(0.5) ? 1 : 0);
    return c;
  }

  std::string describe(const Op& o) const override {
    const std::string t = " [t" + std::to_string(o.d) + "]";
    switch (o.kind) {
      case S_INSERT: return "insert(" + hex(o.key) + ", value#" + std::to_string(o.a) + " len " + std::to_string(o.b) + ")" + t;
      case S_REMOVE: return "remove(" + hex(o.key) + ")" + t;
      case S_GET: return std::string((o.c & 4) ? "get / toggle / get / toggle back / get in straight-line code, then " : "") + "get(" + hex(o.key) + ")" + t;
      case S_EMPTY: return "empty()" + t;
      case S_CLEAR: return "clear()" + t;
      case S_SCAN: return std::string("scan(") + (o.a ? "fwd" : "rev") + (o.b > 0 ? ", halt after " + std::to_string(o.b) : "") + ")" + t;
      case S_SCAN_FROM: return "scan_from(" + hex(o.key) + ", " + (o.a ? "fwd" : "rev") + (o.b > 0 ? ", halt after " + std::to_string(o.b) : "") + ")" + t;
      case S_SCAN_RANGE: return "scan_range(" + hex(o.key) + ", " + hex(o.key2) + (o.b > 0 ? ", halt after " + std::to_string(o.b) : "") + ((o.c & 2) ? ", both bounds views into one buffer" : ((o.c & 1) ? ", from-buffer above to-buffer" : ", from-buffer below to-buffer")) + ")" + t;
      case S_QUIESCE: return "quiescent()" + t;
      case S_PAUSE_RESUME: return "qsbr_pause(); qsbr_resume()" + t;
      case S_LENGTH_ERROR: return std::string("insert with over-long ") + (o.c ? "key" : "value") + " (2^32+" + std::to_string(o.b) + " bytes)" + t;
      default: return "?";
    }
  }

  static Outcome dispatch(const Case& c, int focus, int nonrep_fd) {
    const int dbkind = static_cast<int>(c.knob("dbkind", 0)), keykind = static_cast<int>(c.knob("keykind", 0));
    if (dbkind == 0) return keykind == 0 ? run_db_u64(c, focus, nonrep_fd) : run_db_kv(c, focus, nonrep_fd);
    if (dbkind == 1) return keykind == 0 ? run_mutex_u64(c, focus, nonrep_fd) : run_mutex_kv(c, focus, nonrep_fd);
    return keykind == 0 ? run_olc_u64(c, focus, nonrep_fd) : run_olc_kv(c, focus, nonrep_fd);
  }

  Result run_here(const Case& c, int nonrep_fd) {
    Result res;
    const int focus = static_cast<int>(c.knob("focus", 0));
    run_begin(c, nullptr);
    Outcome o = dispatch(c, focus, nonrep_fd);
    run_end(res);
    Hasher h;
    h.add(res.hash); h.add(o.trace_hash);
    res.hash = h.h;
    auto& st = stats();
    static const char* cls[] = {"I4", "I16", "I48", "I256"};
    unsigned kinds = 0;
    for (int i = 0; i < 4; i++) {
      st.bump(std::string("reach_growth_") + cls[i], o.growth[i]);
      st.bump(std::string("reach_shrink_") + cls[i], o.shrinks[i]);
      kinds += (o.growth[i] != 0) + (o.shrinks[i] != 0);
    }
    st.bump("reach_prefix_split", o.splits);
    kinds += o.splits != 0;
    st.bump("scan_ranges_with_both_bounds_in_one_buffer", o.aliased_bounds);
    st.bump("scans", o.scans); st.bump("scan_visits", o.scan_visits); st.bump("value_views_rechecked", o.views_checked); st.bump("look_modify_look_sequences", o.look_modify_look);
    st.bump("fault_points_tried", o.fault_points); st.bump("alloc_faults_delivered", o.faults_delivered); st.bump("length_errors_delivered", o.length_errors);
    static const char* dbn[] = {"histories_db", "histories_mutex_db", "histories_olc_db"};
    st.bump(dbn[c.knob("dbkind", 0) % 3]);
    st.bump(c.knob("keykind", 0) ? "histories_byte_string_keys" : "histories_uint64_keys");
    if (c.knob("nthreads", 1) > 1) st.bump("histories_issued_from_several_threads");
    if (c.knob("deep", 0)) st.bump("histories_deep_byte_string_keys_branching_beyond_byte_8");
    if (c.knob("varlen", 0)) st.bump("histories_variable_length_byte_string_keys");
    if (c.knob("bulk", 0)) st.bump("histories_with_a_node_of_all_256_children");
    if (o.reached_nonrep && !c.knob("nonrep", 0)) st.bump("histories_cut_short_at_a_nonrepresentable_key_set");
    if (c.knob("varbound", 0) && o.scans) st.bump("histories_scan_bounds_of_other_lengths_than_stored_keys");
    if (focus == 8) res.nontrivial = o.faults_delivered + o.length_errors >= 1;
    else if (focus == 10 || focus == 0) res.nontrivial = kinds >= 3;
    else res.nontrivial = c.threads[0].size() >= 20 && (o.scans > 0 || focus != 2);
    if (const char* hp = getenv("SIM_TRACE_HASHES")) {
      if (FILE* f = fopen(hp, "a")) {
        if (o.have_counters) fprintf(f, "%llu %llu %llu\n", static_cast<unsigned long long>(c.seed), static_cast<unsigned long long>(o.trace_hash), static_cast<unsigned long long>(o.counters_hash));
        else fprintf(f, "%llu %llu -\n", static_cast<unsigned long long>(c.seed), static_cast<unsigned long long>(o.trace_hash));
        fclose(f);
      }
    }
    return res;
  }

  // Histories that may pass through a non-representable key set run in a forked child: the known defect D1
  // corrupts the tree (or trips an assertion), which must not take the worker down.
  Result run_forked(const Case& c) {
    Result res;
    int rfd[2], nfd[2];
    if (pipe(rfd) != 0 || pipe(nfd) != 0) die("harness", "pipe");
    fflush(stdout);
    const pid_t pid = fork();
    if (pid == 0) {
      close(rfd[0]); close(nfd[0]);
      dup2(rfd[1], 1);
      const int devnull = open("/dev/null", O_WRONLY);
      if (devnull >= 0) dup2(devnull, 2);
      alarm(120);
      Result r = run_here(c, nfd[1]);
      const std::string s = std::string("CHILD ") + (r.ok ? "ok " : "fail ") + std::to_string(r.hash) + "\n";
      if (write(1, s.data(), s.size()) < 0) {}
      _exit(0);
    }
    close(rfd[1]); close(nfd[1]);
    std::string buf, nbuf;
    char tmp[4096];
    ssize_t n;
    while ((n = read(rfd[0], tmp, sizeof tmp)) > 0) buf.append(tmp, static_cast<size_t>(n));
    while ((n = read(nfd[0], tmp, sizeof tmp)) > 0) nbuf.append(tmp, static_cast<size_t>(n));
    close(rfd[0]); close(nfd[0]);
    int status = 0;
    waitpid(pid, &status, 0);
    const bool reached_nonrep = !nbuf.empty();
    stats().runs++;
    stats().bump("histories_run_in_forked_child");
    if (reached_nonrep) stats().bump("histories_reaching_nonrepresentable_key_set");
    if (buf.find("CHILD ok") != std::string::npos) {
      res.nontrivial = true;
      res.hash = strtoull(buf.c_str() + buf.find("CHILD ok") + 9, nullptr, 10);
      return res;
    }
    std::string vclass = "died", detail = "child exit status " + std::to_string(status);
    const size_t pos = buf.rfind("RESULT ");
    if (pos != std::string::npos) {
      J j;
      if (J::parse(buf.substr(pos + 7, buf.find('\n', pos) - pos - 7), j)) { vclass = j.gets("class"); detail = j.gets("detail"); }
    }
    if (reached_nonrep) {
      res.ok = false;
      res.known = true;
      res.vclass = "nonrepresentable-keyset";
      res.detail = "history passes through a key set with a compressed path longer than 7 bytes; first divergence after that point: [" + vclass + "] " + detail;
      return res;
    }
    die(vclass, detail + " (in a history flagged as possibly non-representable, before any non-representable key set was reached)");
  }

  Result run(const Case& c) override {
    if (c.knob("nonrep", 0)) return run_forked(c);
    return run_here(c, -1);
  }

  bool remove_thread(Case&, size_t) override { return false; }
};

}  // namespace
}  // namespace sim::seq

namespace sim {
Engine* make_seq_engine() { return new seq::SeqEngine(); }
}  // namespace sim
