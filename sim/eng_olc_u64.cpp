#include "eng_olc.hpp"

namespace sim::olc {

Result run_u64(const Case& c, const std::vector<uint32_t>* measured) { return Runner<std::uint64_t>::run(c, measured); }

namespace {

struct Layout {
  int L = 8, p1 = 0, p2 = 1, p3 = 2;
  std::string base;
  std::string key(int a, int b, int cdeep) const {
    std::string s = base;
    if (a >= 0) s[static_cast<size_t>(p1)] = static_cast<char>(a);
    if (b >= 0) s[static_cast<size_t>(p2)] = static_cast<char>(b);
    if (cdeep >= 0) s[static_cast<size_t>(p3)] = static_cast<char>(cdeep);
    return s;
  }
};

std::vector<int> alphabet(Rng& r, size_t n) {
  std::set<int> s;
  if (n <= 8 && r.chance(0.25)) {  // narrow range: the same byte values recur at different levels of the tree
    const int lo = r.chance(0.5) ? 0 : static_cast<int>(r.below(240));
    while (s.size() < n) s.insert(lo + static_cast<int>(r.below(n + 2)));
    std::vector<int> v(s.begin(), s.end());
    for (size_t i = v.size(); i > 1; i--) std::swap(v[i - 1], v[r.below(i)]);
    return v;
  }
  if (r.chance(0.3)) s.insert(0x00);
  if (r.chance(0.3)) s.insert(0xFF);
  while (s.size() < n) s.insert(static_cast<int>(r.below(256)));
  std::vector<int> v(s.begin(), s.end());
  for (size_t i = v.size(); i > 1; i--) std::swap(v[i - 1], v[r.below(i)]);
  v.resize(n);
  return v;
}

struct OlcEngine final : Engine {
  const char* name() const override { return "olcsim"; }
  static int raw_focus() { const char* fe = getenv("SIM_FOCUS"); return fe ? atoi(fe) : 0; }
  // focus 1xx = focus xx with every program a scenario template of three threads and its schedules a systematic grid of
  // double preemptions (4094 cells) instead of a sample of strategies
  bool systematic_sweep() const override { return raw_focus() >= 100; }
  uint64_t schedules_per_program() const override { return systematic_sweep() ? 4096 : 32; }

  Case generate(uint64_t seed, const std::string& tier) override {
    Case c;
    c.engine = name();
    c.seed = seed;
    Rng r = stream(seed, S_WORKLOAD);
    const bool sweep = systematic_sweep();
    const int focus = raw_focus() % 100;
    c.set_knob("focus", raw_focus());
    const int keykind = r.chance(0.7) ? 0 : 1;
    c.set_knob("keykind", keykind);
    Layout lay;
    lay.L = keykind == 0 ? 8 : static_cast<int>(r.range(2, 12));
    if (lay.L == 2) {
      // two-byte keys: the key ends right below the second level, so a reader that mis-counts consumed key bytes on
      // optimistically read data would step past the end of the caller's key buffer
      lay.p1 = 0; lay.p2 = 1; lay.p3 = 1;
    } else {
      lay.p1 = static_cast<int>(r.range(0, std::min(2, lay.L - 3)));
      lay.p2 = lay.p1 + 1 + static_cast<int>(r.range(0, std::min(3, lay.L - 3 - lay.p1)));
      lay.p3 = lay.p2 + 1 + static_cast<int>(r.range(0, std::min(2, lay.L - 2 - lay.p2)));
    }
    // every pair of keys differs within the first 8 bytes, so every compressed path that any subset of the
    // pool can produce is <= 7 bytes: olcsim stays on representable key sets (defect D1 belongs to C01)
    if (lay.p3 > 7) lay.p3 = 7;
    lay.base.assign(static_cast<size_t>(lay.L), '\0');
    for (auto& ch : lay.base) ch = static_cast<char>(r.chance(0.15) ? (r.chance(0.5) ? 0x00 : 0xFF) : static_cast<int>(r.below(256)));
    // "small integer" shape: all constant bytes equal (00 00 00 .. like keys 0..1000), so that compressed paths are runs of
    // one byte and a stale depth or prefix length still compares equal
    if (r.chance(0.25)) { const char fill = static_cast<char>(r.chance(0.6) ? 0x00 : (r.chance(0.5) ? 0xFF : static_cast<int>(r.below(256)))); for (auto& ch : lay.base) ch = fill; }
    // fan-outs
    static const int n1s[] = {1, 2, 2, 2, 3, 5};
    const int n1 = n1s[r.below(6)];
    static const int small[] = {0, 1, 2, 2, 3, 4, 4, 5, 5, 6};
    static const int mid[] = {15, 16, 16, 17, 17, 18};
    static const int big[] = {47, 48, 48, 49, 49, 50};
    const auto cx = r.below(100);
    int cnt = cx < 62 ? small[r.below(10)] : (cx < 86 ? mid[r.below(6)] : big[r.below(6)]);
    if (tier != "thorough" && cnt > 18 && r.chance(0.5)) cnt = small[r.below(10)];
    // Scenario templates (25 % of the programs): one thread causes a chosen structural change of the hot node, a second one
    // writes next to it or below the node that survives / is edited in place, a third one reads (or scans) below it. The
    // interesting races need exactly this cast, which independent random operations produce very rarely.
    Rng tq = stream(seed, S_WORKLOAD + 64);
    enum { T_NONE, T_COLLAPSE_INODE, T_COLLAPSE_LEAF, T_PREFIX_SPLIT, T_GROW, T_SHRINK, T_LEAF_SPLIT_BELOW, T_STARVE };
    int tmpl = T_NONE;
    if (sweep || tq.chance(0.25)) {
      tmpl = 1 + static_cast<int>(tq.below(sweep ? 6 : 7));  // (sustained writes are not a double-preemption scenario)
      static const int grow_at[] = {4, 4, 16, 16, 48}, shrink_at[] = {5, 5, 17, 17, 49};
      if (tmpl == T_COLLAPSE_INODE || tmpl == T_COLLAPSE_LEAF) cnt = 2;
      else if (tmpl == T_GROW) cnt = grow_at[tq.below(tier == "thorough" ? 5 : 4)];
      else if (tmpl == T_SHRINK) cnt = shrink_at[tq.below(tier == "thorough" ? 5 : 4)];
      else if (cnt < 2) cnt = 2 + static_cast<int>(tq.below(3));
      if (tmpl == T_PREFIX_SPLIT && lay.L > 3 && lay.p2 - lay.p1 < 2) {  // the hot node needs a compressed path to split
        lay.p1 = 0; lay.p2 = std::min(lay.L - 2, 2 + static_cast<int>(tq.below(3))); lay.p3 = std::min(std::min(lay.L - 1, 7), lay.p2 + 1 + static_cast<int>(tq.below(2)));
      }
    }
    auto A1 = alphabet(r, static_cast<size_t>(n1) + 1);   // last one: absent top byte
    auto A2 = alphabet(r, static_cast<size_t>(cnt) + 3);  // last three: absent hot bytes
    auto A3 = alphabet(r, 3);
    lay.base[static_cast<size_t>(lay.p1)] = static_cast<char>(A1[0]);
    lay.base[static_cast<size_t>(lay.p3)] = static_cast<char>(A3[0]);
    const int a0 = A1[0];
    std::vector<std::string> present;
    uint64_t vid = 0;
    auto add_prefill = [&](const std::string& k) {
      for (auto& p : present) if (p == k) return;
      present.push_back(k);
      Op o; o.kind = O_INSERT; o.key = k; o.a = static_cast<int64_t>(++vid); o.b = r.range(8, 24);
      c.prefill.push_back(o);
    };
    for (int i = 0; i < cnt; i++) add_prefill(lay.key(a0, A2[static_cast<size_t>(i)], -1));
    int deep_b = -1;
    const bool want_deep = tmpl == T_COLLAPSE_INODE ? true : (tmpl == T_COLLAPSE_LEAF || tmpl == T_LEAF_SPLIT_BELOW ? false : r.chance(0.45));
    if (cnt >= 1 && want_deep && lay.L > 2) {
      deep_b = A2[r.below(static_cast<uint64_t>(cnt))];
      add_prefill(lay.key(a0, deep_b, A3[1]));
    }
    // sometimes the node below the hot node sits at a class boundary as well, so that growth, shrink and collapse happen
    // two levels below the root while the hot node above it is being restructured (three inner levels on a scanner's stack)
    std::vector<std::string> deep_present, deep_absent;
    if (deep_b >= 0 && lay.L > 2 && r.chance(0.35)) {
      static const int dsmall[] = {1, 2, 3, 3, 4, 4, 5, 15, 16, 17};
      const int cnt2 = dsmall[r.below(10)];
      auto A3b = alphabet(r, static_cast<size_t>(cnt2) + 2);
      for (int i = 0; i < cnt2; i++) { const std::string k = lay.key(a0, deep_b, A3b[static_cast<size_t>(i)]); add_prefill(k); if (deep_present.size() < 3) deep_present.push_back(k); }
      for (int i = 0; i < 2; i++) deep_absent.push_back(lay.key(a0, deep_b, A3b[static_cast<size_t>(cnt2 + i)]));
    }
    std::vector<std::string> sib_keys;
    for (int i = 1; i < n1; i++) {
      std::string k = lay.key(A1[static_cast<size_t>(i)], -1, -1);
      add_prefill(k);
      sib_keys.push_back(k);
      if (r.chance(0.3)) add_prefill(lay.key(A1[static_cast<size_t>(i)], A2[static_cast<size_t>(cnt)], -1));
    }
    // shuffle prefill order (history independence is part of what is exercised)
    for (size_t i = c.prefill.size(); i > 1; i--) std::swap(c.prefill[i - 1], c.prefill[r.below(i)]);
    // candidate keys for operations
    std::vector<std::string> cand;
    std::vector<std::string> hp, ha;
    for (int i = 0; i < cnt && hp.size() < 3; i++) hp.push_back(lay.key(a0, A2[static_cast<size_t>(cnt - 1 - i)], -1));
    for (int i = 0; i < 3; i++) ha.push_back(lay.key(a0, A2[static_cast<size_t>(cnt + i)], -1));
    std::vector<std::string> special;
    if (deep_b >= 0) { special.push_back(lay.key(a0, deep_b, -1)); special.push_back(lay.key(a0, deep_b, A3[1])); special.push_back(lay.key(a0, deep_b, A3[2])); }
    for (auto& k : sib_keys) special.push_back(k);
    for (auto& k : deep_present) special.push_back(k);
    for (auto& k : deep_absent) { bool have = false; for (auto& p : present) if (p == k) have = true; if (!have) special.push_back(k); }
    special.push_back(lay.key(A1[static_cast<size_t>(n1)], -1, -1));  // absent top byte: grows / creates the top node
    if (lay.p2 - lay.p1 > 1) {  // diverges inside the hot node's compressed path: at its first byte, its last byte, or anywhere
      const int span = lay.p2 - lay.p1 - 1;
      const auto wx = r.below(3);
      const int at = lay.p1 + 1 + (wx == 0 ? 0 : (wx == 1 ? span - 1 : static_cast<int>(r.below(static_cast<uint64_t>(span)))));
      std::string k = lay.key(a0, -1, -1);
      k[static_cast<size_t>(at)] = static_cast<char>(k[static_cast<size_t>(at)] ^ 0x11);
      special.push_back(k);
    }
    if (lay.p1 > 0) {  // diverges inside the root's compressed path
      std::string k = lay.key(a0, -1, -1);
      k[0] = static_cast<char>(k[0] ^ 0x24);
      special.push_back(k);
    }
    // focus set: few keys, so that operations race on the same keys
    std::vector<std::string> focus_keys;
    auto take = [&](std::vector<std::string>& from, size_t n) {
      for (size_t i = 0; i < n && !from.empty(); i++) {
        const size_t j = r.below(from.size());
        focus_keys.push_back(from[j]);
        from.erase(from.begin() + static_cast<long>(j));
      }
    };
    take(hp, r.range(0, 2));
    take(ha, r.range(0, 2));
    take(special, deep_present.empty() ? r.range(1, 3) : r.range(2, 4));
    if (focus_keys.empty()) focus_keys.push_back(lay.key(a0, A2[0], -1));
    std::vector<std::string> pool = focus_keys;
    for (auto& k : hp) pool.push_back(k);
    for (auto& k : ha) pool.push_back(k);
    for (auto& k : special) pool.push_back(k);
    auto pick_key = [&]() -> std::string { return r.chance(0.85) ? focus_keys[r.below(focus_keys.size())] : pool[r.below(pool.size())]; };
    auto pick_bound = [&]() -> std::string {
      const auto x = r.below(100);
      if (x < 45) return pick_key();
      if (x < 60 && !present.empty()) return present[r.below(present.size())];
      if (x < 70) return std::string(static_cast<size_t>(lay.L), '\0');
      if (x < 80) return std::string(static_cast<size_t>(lay.L), static_cast<char>(0xFF));
      std::string k = pick_key();
      k.back() = static_cast<char>(static_cast<unsigned char>(k.back()) + (r.chance(0.5) ? 1 : 255));
      return k;
    };
    // threads
    const auto tx = r.below(100);
    const int nthreads = sweep ? 3 : (tmpl != T_NONE ? (tx < 75 ? 3 : 4) : (tx < 50 ? 2 : (tx < 85 ? 3 : 4)));
    const int nscanners = focus == 9 ? (nthreads >= 3 && r.chance(0.4) ? 2 : 1) : 0;
    const bool with_scans = focus == 4 || focus == 14 || focus == 0;
    for (int t = 0; t < nthreads; t++) {
      std::vector<Op> ops;
      const bool scanner = t < nscanners;
      const auto ox = r.below(100);
      int nops = ox < 25 ? 1 : (ox < 60 ? 2 : (ox < 85 ? 3 : 4));
      if (scanner) nops = static_cast<int>(r.range(1, 2));
      if (tmpl != T_NONE && t < 3) nops = sweep ? 0 : static_cast<int>(tq.below(2));  // the template supplies the first operation
      for (int i = 0; i < nops; i++) {
        Op o;
        const auto k = r.below(100);
        const bool scan = scanner ? (k < 85) : (with_scans && k < 14);
        if (scan) {
          const auto sk = r.below(100);
          o.kind = sk < 30 ? O_SCAN : (sk < 65 ? O_SCAN_FROM : O_SCAN_RANGE);
          o.a = r.chance(0.6) ? 1 : 0;
          o.b = r.chance(0.25) ? r.range(1, 3) : -1;
          if (o.kind != O_SCAN) o.key = pick_bound();
          if (o.kind == O_SCAN_RANGE) { o.key2 = pick_bound(); }
          if (o.kind == O_SCAN) { o.key = std::string(static_cast<size_t>(lay.L), '\0'); }
          if (o.key2.empty()) o.key2 = std::string(static_cast<size_t>(lay.L), '\0');
        } else {
          const auto pk = scanner ? 0 : r.below(100);
          o.key = pick_key();
          o.key2 = std::string(static_cast<size_t>(lay.L), '\0');
          if (pk < 36) o.kind = O_GET;
          else if (pk < 68) { o.kind = O_INSERT; o.a = (static_cast<int64_t>(t + 1) << 24) | (static_cast<int64_t>(i + 1) << 8) | 1; o.b = r.range(8, 40); }
          else o.kind = O_REMOVE;
        }
        ops.push_back(o);
      }
      c.threads.push_back(std::move(ops));
    }
    if (tmpl != T_NONE) {
      auto hotp = [&](int i) { return lay.key(a0, A2[static_cast<size_t>(i % std::max(cnt, 1))], -1); };
      auto hota = [&](int i) { return lay.key(a0, A2[static_cast<size_t>(cnt + (i % 3))], -1); };
      const std::string zero(static_cast<size_t>(lay.L), '\0');
      int serial = 0;
      auto mk = [&](int kind, const std::string& key) {
        Op o; o.kind = kind; o.key = key; o.key2 = zero;
        if (kind == O_INSERT) { o.a = (static_cast<int64_t>(9) << 24) | (static_cast<int64_t>(++serial) << 8) | 1; o.b = tq.range(8, 40); }
        return o;
      };
      auto reader = [&](const std::string& key) {
        if (focus == 9 || (with_scans && tq.chance(0.3))) {
          Op o; o.kind = tq.chance(0.5) ? O_SCAN_FROM : O_SCAN; o.key = key; o.key2 = zero; o.a = tq.chance(0.6) ? 1 : 0; o.b = -1;
          if (o.kind == O_SCAN) o.key = zero;
          return o;
        }
        return mk(O_GET, key);
      };
      Op w1, w2, rd;
      switch (tmpl) {
        case T_COLLAPSE_INODE: {
          const int other = deep_b == A2[0] ? A2[1] : A2[0];
          w1 = mk(O_REMOVE, lay.key(a0, other, -1));
          w2 = tq.chance(0.6) ? mk(O_INSERT, lay.key(a0, deep_b, A3[2])) : mk(O_REMOVE, lay.key(a0, deep_b, A3[1]));
          rd = reader(lay.key(a0, deep_b, tq.chance(0.5) ? -1 : A3[1]));
          break;
        }
        case T_COLLAPSE_LEAF:
          w1 = mk(O_REMOVE, hotp(0));
          w2 = tq.chance(0.5) ? mk(O_INSERT, hota(0)) : mk(O_REMOVE, hotp(1));
          rd = reader(hotp(1));
          break;
        case T_PREFIX_SPLIT: {
          std::string k = lay.key(a0, -1, -1);
          if (lay.p2 - lay.p1 > 1) { const int at = lay.p1 + 1 + static_cast<int>(tq.below(static_cast<uint64_t>(lay.p2 - lay.p1 - 1))); k[static_cast<size_t>(at)] = static_cast<char>(k[static_cast<size_t>(at)] ^ 0x11); }
          else k = hota(2);
          w1 = mk(O_INSERT, k);
          w2 = tq.chance(0.5) ? mk(O_INSERT, hota(0)) : mk(O_REMOVE, hotp(1));
          rd = reader(hotp(0));
          break;
        }
        case T_GROW:
          w1 = mk(O_INSERT, hota(0));
          w2 = tq.chance(0.5) ? mk(O_INSERT, hota(1)) : mk(O_REMOVE, hotp(1));
          rd = reader(deep_b >= 0 && tq.chance(0.5) ? lay.key(a0, deep_b, A3[1]) : hotp(0));
          break;
        case T_SHRINK:
          w1 = mk(O_REMOVE, hotp(0));
          w2 = tq.chance(0.5) ? mk(O_REMOVE, hotp(1)) : mk(O_INSERT, hota(0));
          rd = reader(deep_b >= 0 && tq.chance(0.5) ? lay.key(a0, deep_b, A3[1]) : hotp(2));
          break;
        case T_STARVE:
          // sustained writes through the reader's path: two writers toggle keys below the hot node many times while one reader
          // looks up a key there; under fine-grained schedules the reader loses its optimistic race again and again
          w1 = mk(O_INSERT, hota(0));
          w2 = mk(O_INSERT, hota(1));
          rd = reader(hotp(0));
          break;
        default:  // T_LEAF_SPLIT_BELOW
          w1 = mk(O_INSERT, lay.key(a0, A2[0], A3[1]));
          w2 = tq.chance(0.6) ? mk(O_INSERT, hota(0)) : mk(O_REMOVE, hotp(1));
          rd = reader(hotp(0));
          break;
      }
      Op cast[3] = {w1, w2, rd};
      for (int i = 2; i > 0; i--) std::swap(cast[i], cast[tq.below(static_cast<uint64_t>(i) + 1)]);
      for (int t = 0; t < 3; t++) c.threads[static_cast<size_t>(t)].insert(c.threads[static_cast<size_t>(t)].begin(), cast[t]);
      if (tmpl == T_STARVE)
        for (int t = 0; t < 3; t++) {
          auto& ops = c.threads[static_cast<size_t>(t)];
          if (ops[0].kind != O_INSERT) { ops.resize(1); continue; }  // the reader: one lookup
          const std::string key = ops[0].key;
          ops.resize(1);
          const int n = static_cast<int>(tq.range(9, 15));
          for (int i = 0; i < n; i++) ops.push_back(mk((i % 2) == 0 ? O_REMOVE : O_INSERT, key));
        }
      c.set_knob("template", tmpl);
    }
    c.set_knob("initial_threads", nthreads);
    if (!sweep && (focus == 4 || focus == 14 || focus == 0 || focus == 10)) {
      // QSBR membership changes inside the concurrent phase: pause+resume between index operations, and (sometimes) a
      // qsbr_thread started by one of the running threads
      for (auto& ops : c.threads)
        for (size_t i = 0; i <= ops.size(); i++)
          if (r.chance(0.07)) { Op o; o.kind = O_PAUSE_RESUME; o.a = r.chance(0.5) ? 0 : r.range(1, 10); o.b = r.chance(0.5) ? 1 : 0; o.key = o.key2 = std::string(static_cast<size_t>(lay.L), '\0'); ops.insert(ops.begin() + static_cast<long>(i), o); i++; }
      if (nthreads < 4 && r.chance(0.2)) {
        std::vector<Op> ops;
        const int nops = static_cast<int>(r.range(1, 3));
        for (int i = 0; i < nops; i++) {
          Op o;
          o.key = pick_key();
          o.key2 = std::string(static_cast<size_t>(lay.L), '\0');
          const auto pk = r.below(100);
          if (pk < 40) o.kind = O_GET;
          else if (pk < 70) { o.kind = O_INSERT; o.a = (static_cast<int64_t>(nthreads + 1) << 24) | (static_cast<int64_t>(i + 1) << 8) | 1; o.b = r.range(8, 40); }
          else o.kind = O_REMOVE;
          ops.push_back(o);
        }
        c.threads.push_back(std::move(ops));
        const size_t parent = r.below(static_cast<uint64_t>(nthreads));
        Op sp; sp.kind = O_SPAWN; sp.a = nthreads; sp.key = sp.key2 = std::string(static_cast<size_t>(lay.L), '\0');
        auto& pops = c.threads[parent];
        pops.insert(pops.begin() + static_cast<long>(r.below(pops.size() + 1)), sp);
      }
    }
    if (keykind == 1) {
      Rng vr = stream(seed, S_WORKLOAD + 16);
      // variable-length byte-string keys: every key used by the program (prefill and point operations) is cut somewhere
      // beyond the byte that tells it from its nearest neighbour, which keeps the whole set prefix-free
      const bool novar = getenv("SIM_NO_VAR") != nullptr;  // debugging aid: fixed-length keys and bounds only
      if (vr.chance(0.3) && !novar) {
        std::set<std::string> all;
        for (auto& o : c.prefill) all.insert(o.key);
        for (auto& ops : c.threads) for (auto& o : ops) if (o.kind == O_GET || o.kind == O_INSERT || o.kind == O_REMOVE) all.insert(o.key);
        std::vector<std::string> v(all.begin(), all.end());
        auto lcp = [](const std::string& a, const std::string& b) { size_t i = 0; while (i < a.size() && i < b.size() && a[i] == b[i]) i++; return i; };
        std::map<std::string, std::string> cut;
        for (size_t i = 0; i < v.size(); i++) {
          size_t minlen = 1;
          if (i > 0) minlen = std::max(minlen, lcp(v[i - 1], v[i]) + 1);
          if (i + 1 < v.size()) minlen = std::max(minlen, lcp(v[i], v[i + 1]) + 1);
          std::string k = v[i];
          if (minlen < k.size()) { const auto x = vr.below(100); k.resize(x < 40 ? minlen : (x < 60 ? k.size() : minlen + vr.below(k.size() - minlen + 1))); }
          cut[v[i]] = k;
        }
        for (auto& o : c.prefill) o.key = cut[o.key];
        for (auto& ops : c.threads) for (auto& o : ops) if (o.kind == O_GET || o.kind == O_INSERT || o.kind == O_REMOVE) o.key = cut[o.key];
        c.set_knob("varlen", 1);
      }
      // scan bounds of other lengths than the stored keys: proper prefixes ("everything starting with ab") and extensions
      if (vr.chance(0.35) && !novar) {
        for (auto& ops : c.threads)
          for (auto& o : ops)
            if (o.kind == O_SCAN_FROM || o.kind == O_SCAN_RANGE)
              for (std::string* k : {&o.key, &o.key2}) {
                const auto x = vr.below(100);
                if (x < 35 && !k->empty()) k->resize(1 + vr.below(k->size()));
                else if (x < 50) { const size_t extra = 1 + vr.below(3); for (size_t i = 0; i < extra; i++) k->push_back(static_cast<char>(vr.chance(0.4) ? 0x00 : (vr.chance(0.5) ? 0xFF : static_cast<int>(vr.below(256))))); }
              }
        c.set_knob("varbound", 1);
      }
      // point lookups (get, remove) with a proper prefix or an extension of a key of the program: never stored, never changes
      // the key set; must miss / fail and, above all, return
      if (vr.chance(0.35) && !novar) {
        for (auto& ops : c.threads)
          for (auto& o : ops)
            if ((o.kind == O_GET || o.kind == O_REMOVE) && vr.chance(0.15)) {
              if (o.key.size() > 1 && vr.chance(0.6)) o.key.resize(1 + vr.below(o.key.size() - 1));
              else { const size_t extra = 1 + vr.below(3); for (size_t i = 0; i < extra; i++) o.key.push_back(static_cast<char>(vr.chance(0.4) ? 0x00 : static_cast<int>(vr.below(256)))); }
            }
        c.set_knob("varprobe", 1);
      }
    }
    const auto qx = r.below(100);
    c.set_knob("qplace", qx < 45 ? 0 : (qx < 80 ? 1 : 2));
    c.set_knob("hold", (focus == 4 || focus == 9 || focus == 0 || focus == 14) && r.chance(0.6) ? 1 : 0);
    if (focus == 14 || focus == 0) {
      Rng fr = stream(seed, S_FAULT);
      for (size_t t = 0; t < c.threads.size(); t++)
        for (size_t i = 0; i < c.threads[t].size(); i++)
          if (c.threads[t][i].kind == O_INSERT && fr.chance(0.25))
            c.faults.push_back({static_cast<int>(t) + 1, static_cast<int>(i), 1, static_cast<int>(fr.range(1, 2)), 0});
    }
    return c;
  }

  std::string describe(const Op& o) const override {
    switch (o.kind) {
      case O_GET: return "get(" + hex(o.key) + ")";
      case O_INSERT: return "insert(" + hex(o.key) + ", value#" + std::to_string(o.a) + " len " + std::to_string(o.b) + ")";
      case O_REMOVE: return "remove(" + hex(o.key) + ")";
      case O_SCAN: return std::string("scan(") + (o.a ? "fwd" : "rev") + (o.b > 0 ? ", halt after " + std::to_string(o.b) : "") + ")";
      case O_SCAN_FROM: return "scan_from(" + hex(o.key) + ", " + (o.a ? "fwd" : "rev") + (o.b > 0 ? ", halt after " + std::to_string(o.b) : "") + ")";
      case O_SCAN_RANGE: return "scan_range(" + hex(o.key) + ", " + hex(o.key2) + (o.b > 0 ? ", halt after " + std::to_string(o.b) : "") + ")";
      case O_QUIESCE: return "quiescent()";
      case O_PAUSE_RESUME: return "qsbr_pause(); stay paused for " + std::to_string(o.a + 1) + " scheduling points; qsbr_resume()";
      case O_SPAWN: return "start qsbr_thread running thread #" + std::to_string(o.a + 1);
      default: return "?";
    }
  }

  Result run(const Case& c) override {
    return c.knob("keykind", 0) == 0 ? run_u64(c, measured_ptr()) : run_kv(c, measured_ptr());
  }

  bool remove_thread(Case& c, size_t t) override {
    // SPAWN ops name their target by index: keep indices stable while one exists
    for (auto& th : c.threads) for (auto& o : th) if (o.kind == O_SPAWN) return false;
    if (!Engine::remove_thread(c, t)) return false;
    c.set_knob("initial_threads", static_cast<int64_t>(c.threads.size()));
    return true;
  }
  bool remove_op(Case& c, size_t t, size_t i) override {
    if (t < c.threads.size() && i < c.threads[t].size() && c.threads[t][i].kind == O_SPAWN) {
      // removing the start of a thread removes that thread (always the last one) as well
      const size_t child = static_cast<size_t>(c.threads[t][i].a);
      if (child + 1 != c.threads.size()) return false;
      if (!Engine::remove_op(c, t, i)) return false;
      if (!Engine::remove_thread(c, child)) return false;
      c.set_knob("initial_threads", static_cast<int64_t>(c.threads.size()));
      return true;
    }
    return Engine::remove_op(c, t, i);
  }

  // try replacing scans by gets and dropping value lengths
  std::vector<Case> simplify(const Case& c) override {
    std::vector<Case> out;
    if (c.knob("hold", 0)) { Case d = c; d.set_knob("hold", 0); out.push_back(d); }
    if (c.knob("qplace", 0) != 1) { Case d = c; d.set_knob("qplace", 1); out.push_back(d); }
    for (size_t t = 0; t < c.threads.size(); t++)
      for (size_t i = 0; i < c.threads[t].size(); i++) {
        const Op& o = c.threads[t][i];
        if ((o.kind == O_SCAN_FROM || o.kind == O_SCAN_RANGE)) { Case d = c; d.threads[t][i].kind = O_SCAN; d.threads[t][i].a = d.threads[t][i].kind == O_SCAN_RANGE ? (o.key < o.key2) : o.a; out.push_back(d); }
        if (o.kind >= O_SCAN && o.kind <= O_SCAN_RANGE && o.b > 0) { Case d = c; d.threads[t][i].b = -1; out.push_back(d); }
      }
    return out;
  }
};

}  // namespace
}  // namespace sim::olc

namespace sim {
Engine* make_olc_engine() { return new olc::OlcEngine(); }
}  // namespace sim
