#include "eng_seq.hpp"

namespace sim::seq {
Outcome run_olc_kv(const Case& c, int focus, int nonrep_fd) { return run_one<unodb::olc_db<unodb::key_view, unodb::value_view>>(c, focus, nonrep_fd); }
}  // namespace sim::seq
