// mutexsim -- C13: mutex_db operations are atomic (linearizable), a successful
// get pins the entry through the returned lock handle, a miss returns without
// the lock, and no other operation returns holding it. Templated on the key type.
#pragma once

#include <map>
#include <memory>
#include <sstream>

#include "global.hpp"
#include "mutex_art.hpp"

#include "models.hpp"
#include "sched.hpp"

namespace sim::mtx {

enum MKind { M_GET = 1, M_INSERT = 2, M_REMOVE = 3, M_EMPTY = 4, M_CLEAR = 5, M_SCAN = 6, M_SCAN_FROM = 7, M_SCAN_RANGE = 8, M_DUMP = 9, M_MEMUSE = 10, M_NODECOUNTS = 11 };
// dump: dump(ostream) into a string; memuse / nodecounts: statistics getters, which must report a state the index had between two operations
// Op: key,key2; insert: a = value id, b = length; scans: a = fwd, b = halt; get: c = number of re-reads while the handle is held

template <class Key> struct KeyConv;
template <> struct KeyConv<std::uint64_t> {
  static std::uint64_t make(const std::string& k) { return keyu64(k); }
};
template <> struct KeyConv<unodb::key_view> {
  static unodb::key_view make(const std::string& k) { return {reinterpret_cast<const std::byte*>(k.data()), k.size()}; }
};

template <class Key>
struct Runner {
  using Db = unodb::mutex_db<Key, unodb::value_view>;

  struct Committed { uint64_t stamp, bytes, blocks; };
  static inline std::vector<Committed>* committed = nullptr;

  static void body(Db* db, const Case* c, int tid, std::vector<MapOp>* log) {
    const auto& ops = c->threads[static_cast<size_t>(tid - 1)];
    for (size_t i = 0; i < ops.size(); i++) {
      const Op& o = ops[i];
      MapOp ev;
      ev.thread = tid; ev.op = static_cast<int>(i); ev.key = o.key; ev.key2 = o.key2;
      const Key k = KeyConv<Key>::make(o.key), k2 = KeyConv<Key>::make(o.key2);
      const std::string val = o.kind == M_INSERT ? make_value(static_cast<uint64_t>(o.a), static_cast<size_t>(o.b)) : std::string();
      op_begin(static_cast<int>(i));
      switch (o.kind) {
        case M_GET: {
          ev.type = MapOp::GET;
          ev.call = stamp();
          auto g = db->get(k);
          ev.ret = stamp();
          ev.ok = g.first.has_value();
          if (ev.ok != g.second.owns_lock())
            die("mutex-get-lock", "t" + std::to_string(tid) + ".op" + std::to_string(i) + ": get " + (ev.ok ? "found the key but does not own the index lock" : "missed but returned owning the index lock"));
          if (ev.ok != owns_any_mutex())
            die("mutex-get-lock", "t" + std::to_string(tid) + ".op" + std::to_string(i) + ": after get the calling thread " + (owns_any_mutex() ? "owns" : "does not own") + " the index mutex although the key was " + (ev.ok ? "found" : "missed"));
          if (ev.ok) {
            const auto* p = g.first->data();
            const size_t n = g.first->size();
            std::string first(reinterpret_cast<const char*>(p), n);
            ev.value = value_identity(first.data(), first.size());
            for (int64_t rr = 0; rr < o.c; rr++) {
              point(K_HARNESS, p);  // writers are free to try while the handle is held
              const Block* b = find_block(p);
              if (b && b->state != 0) die("pinned-entry-freed", "the entry found by t" + std::to_string(tid) + ".op" + std::to_string(i) + " was freed while its lock handle is still held");
              if (n && memcmp(p, first.data(), n) != 0) die("pinned-entry-changed", "value bytes changed while the lock handle of t" + std::to_string(tid) + ".op" + std::to_string(i) + " is held");
            }
            g.second.unlock();
          }
          break;
        }
        case M_INSERT: {
          ev.type = MapOp::INSERT; ev.value = value_identity_of(static_cast<uint64_t>(o.a), static_cast<size_t>(o.b));
          ev.call = stamp();
          try {
            ev.ok = db->insert(k, unodb::value_view{reinterpret_cast<const std::byte*>(val.data()), val.size()});
          } catch (const std::bad_alloc&) {
            ev.threw = true;
          }
          ev.ret = stamp();
          break;
        }
        case M_REMOVE: {
          ev.type = MapOp::REMOVE;
          ev.call = stamp();
          try {
            ev.ok = db->remove(k);
          } catch (const std::bad_alloc&) {
            ev.threw = true;
          }
          ev.ret = stamp();
          break;
        }
        case M_EMPTY: {
          ev.type = MapOp::EMPTY;
          ev.call = stamp();
          ev.ok = db->empty();
          ev.ret = stamp();
          break;
        }
        case M_CLEAR: {
          ev.type = MapOp::CLEAR;
          ev.call = stamp();
          db->clear();
          ev.ret = stamp();
          break;
        }
        case M_DUMP: {
          ev.threw = true;  // no result to explain: left out of the linearizability search
          ev.call = stamp();
          std::ostringstream os;
          db->dump(os);
          ev.ret = stamp();
          break;
        }
        case M_MEMUSE:
        case M_NODECOUNTS: {
          ev.threw = true;  // judged here, against the states the index had between operations
#ifdef UNODB_DETAIL_WITH_STATS
          ev.call = stamp();
          uint64_t got = 0;
          if (o.kind == M_MEMUSE) got = db->get_current_memory_use();
          else { const auto n = db->get_node_counts(); for (auto v : n) got += v; }
          ev.ret = stamp();
          // legal: the value at the last release of the index mutex before the call, or at any release up to the return
          bool legal = false;
          std::string seen;
          for (size_t k = committed->size(); k-- > 0;) {
            const Committed& cm = (*committed)[k];
            if (cm.stamp > ev.ret) continue;
            const uint64_t v = o.kind == M_MEMUSE ? cm.bytes : cm.blocks;
            if (v == got) legal = true;
            seen += " " + std::to_string(v);
            if (cm.stamp < ev.call) break;  // the state in force when the call was made
          }
          if (!legal)
            die("stats-getter-not-atomic", "t" + std::to_string(tid) + ".op" + std::to_string(i) + (o.kind == M_MEMUSE ? ": get_current_memory_use() = " : ": sum of get_node_counts() = ") + std::to_string(got) +
                                               ", but between operations the index only ever had:" + seen);
#endif
          break;
        }
        default: {
          ev.type = o.kind == M_SCAN ? MapOp::SCAN : (o.kind == M_SCAN_FROM ? MapOp::SCAN_FROM : MapOp::SCAN_RANGE);
          ev.fwd = o.a != 0; ev.halt = o.b;
          auto fn = [&](const unodb::visitor<typename Db::iterator>& v) {
            const auto kv = v.get_key();
            const auto vv = v.get_value();
            const uint64_t id = value_identity(vv.data(), vv.size());
            ev.visited.emplace_back(std::string(reinterpret_cast<const char*>(kv.data()), kv.size()), id);
            return ev.halt > 0 && static_cast<int64_t>(ev.visited.size()) >= ev.halt;
          };
          ev.call = stamp();
          if (o.kind == M_SCAN) db->scan(fn, ev.fwd);
          else if (o.kind == M_SCAN_FROM) db->scan_from(k, fn, ev.fwd);
          else db->scan_range(k, k2, fn);
          ev.ret = stamp();
          break;
        }
      }
      if (owns_any_mutex())
        die("mutex-left-locked", "t" + std::to_string(tid) + ".op" + std::to_string(i) + " (" + std::to_string(o.kind) + (ev.threw ? ") threw std::bad_alloc (injected allocation failure)" : ") returned") + " with the index mutex held");
      op_end();
      note(static_cast<uint64_t>(ev.ok) | (ev.value << 1) | (static_cast<uint64_t>(ev.visited.size()) << 40) | (static_cast<uint64_t>(ev.threw) << 60));
      log->push_back(std::move(ev));
    }
  }

  static Result run(const Case& c, const std::vector<uint32_t>* measured) {
    Result res;
    run_begin(c, measured);
    auto db = std::make_unique<Db>();
    name_region(db.get(), sizeof(Db), 3);
    MapState init;
    for (auto& o : c.prefill) {
      const std::string val = make_value(static_cast<uint64_t>(o.a), static_cast<size_t>(o.b));
      if (db->insert(KeyConv<Key>::make(o.key), unodb::value_view{reinterpret_cast<const std::byte*>(val.data()), val.size()})) init[o.key] = value_identity_of(static_cast<uint64_t>(o.a), static_cast<size_t>(o.b));
    }
    std::vector<std::vector<MapOp>> logs(c.threads.size());
    Db* dbp = db.get();
    const Case* cp = &c;
    // every state the index has between two operations: sampled whenever the index mutex is about to be released
    std::vector<Committed> states;
    states.reserve(256);
    committed = &states;
    auto sample = [&states] { int nb = 0; const size_t bytes = live_bytes(&nb); states.push_back({stamp(), bytes, static_cast<uint64_t>(nb)}); };
    sample();
    set_mutex_unlock_callback(sample);
    concurrent_begin();
    for (size_t t = 0; t < c.threads.size(); t++) {
      auto* lg = &logs[t];
      const int tid = static_cast<int>(t) + 1;
      spawn(tid, [dbp, cp, tid, lg] { body(dbp, cp, tid, lg); }, false);
    }
    join_all();
    auto fail = [&](const std::string& cls, const std::string& d) { if (res.ok) { res.ok = false; res.vclass = cls; res.detail = d; } };
    std::vector<MapOp> all;
    uint64_t threw = 0;
    for (auto& l : logs) for (auto& e : l) { if (e.threw) { threw++; continue; } all.push_back(e); }  // a failed operation must have had no effect
    stats().bump("operations_failed_by_injected_allocation_failure", threw);
    MapState fin;
    if (!lin_check_map(all, init, &fin)) {
      std::string d = "history is not linearizable:";
      for (auto& e : all) {
        static const char* tn[] = {"get", "insert", "remove", "empty", "clear", "scan", "scan_from", "scan_range"};
        d += " [t" + std::to_string(e.thread) + ".op" + std::to_string(e.op) + " " + tn[e.type] + (e.type <= MapOp::REMOVE ? "(" + hex(e.key).substr(0, 16) + ")" : "") + "=" +
             (e.type >= MapOp::SCAN ? std::to_string(e.visited.size()) + " entries" : (e.type == MapOp::GET && e.ok ? "v" + std::to_string(e.value) : (e.ok ? "true" : "false"))) + " @" +
             std::to_string(e.call) + "-" + std::to_string(e.ret) + "]";
      }
      fail("not-linearizable", d);
    } else {
      // single-threaded sweep (hooks active: a mutex left locked is a deadlock report, not a hang)
      std::vector<std::pair<std::string, uint64_t>> seen;
      db->scan([&](const unodb::visitor<typename Db::iterator>& v) {
        const auto kv = v.get_key(); const auto vv = v.get_value();
        seen.emplace_back(std::string(reinterpret_cast<const char*>(kv.data()), kv.size()), value_identity(vv.data(), vv.size()));
        return false;
      }, true);
      // the final content must be explained by SOME linearization; the one found may differ from another valid one
      // only in the order of overlapping operations, so compare against the set of keys touched conservatively:
      MapOp full; full.type = MapOp::SCAN; full.fwd = true; full.call = stamp(); full.ret = stamp(); full.visited = seen;
      all.push_back(full);
      if (all.size() <= 24 && !lin_check_map(all, init, nullptr))
        fail("final-state", "the content found by a scan after the run (" + std::to_string(seen.size()) + " entries) is not the outcome of any linearization of the history");
    }
    concurrent_end();
    set_mutex_unlock_callback(nullptr);
    committed = nullptr;
    db.reset();
    int nb = 0;
    live_bytes(&nb);
    if (nb != 0) fail("leak", std::to_string(nb) + " blocks still allocated after the index was destroyed");
    run_end(res);
    res.nontrivial = false;
    for (auto& e : res.realised) if (e.hook > 1) res.nontrivial = true;
    return res;
  }
};

Result run_u64(const Case& c, const std::vector<uint32_t>* measured);
Result run_kv(const Case& c, const std::vector<uint32_t>* measured);

}  // namespace sim::mtx
