// ptrsim -- C17: qsbr_ptr / qsbr_ptr_span behave as the raw pointer / span they
// wrap, and (assertion-enabled builds) a thread's quiescent state or pause is
// rejected precisely when a non-null wrapper created on that thread is alive.
#include <csetjmp>
#include <fcntl.h>
#include <sys/wait.h>
#include <unistd.h>
#include <memory>
#include <optional>
#include <span>

#include "global.hpp"
#include "qsbr.hpp"
#include "qsbr_ptr.hpp"

#include "sched.hpp"

namespace {
using namespace sim;

enum PKind {
  P_CTOR = 1, P_DEFAULT, P_COPY, P_MOVE, P_COPY_ASSIGN, P_MOVE_ASSIGN, P_PREINC, P_PREDEC, P_POSTINC, P_POSTDEC, P_ADD_ASSIGN, P_SUB_ASSIGN,
  P_PLUS, P_MINUS, P_FRIEND_PLUS, P_DIFF, P_CMP, P_DEREF, P_INDEX, P_WRITE, P_DESTROY,
  SP_CTOR, SP_DEFAULT, SP_COPY, SP_MOVE, SP_COPY_ASSIGN, SP_MOVE_ASSIGN, SP_ITERATE, SP_DESTROY,
  P_PROBE_QUIESCENT, P_PROBE_PAUSE,
  // spans and pointers over a multi-byte element type (uint32_t): sizes and iteration are in elements, not bytes
  W_SPAN_CTOR, W_SPAN_COPY, W_SPAN_MOVE_ASSIGN, W_SPAN_ITERATE, W_SPAN_DESTROY, W_PTR_WALK,
  // null wrappers (default-constructed, moved-from) are inert: they may be copied, assigned and destroyed while the thread is
  // paused, which is when no non-null wrapper may exist
  P_NULL_OPS_WHILE_PAUSED
};
// Op: a = destination slot, b = source slot / buffer, c = offset / n, d = length

constexpr int kSlots = 4, kSpanSlots = 2, kBufs = 3;
constexpr std::ptrdiff_t kBufLen = 64;

using Ptr = unodb::qsbr_ptr<std::byte>;
using Span = unodb::qsbr_ptr_span<std::byte>;

struct Shared { std::byte buf[kBufs][kBufLen]; std::uint32_t wide[32]; };
using WSpan = unodb::qsbr_ptr_span<std::uint32_t>;
using WPtr = unodb::qsbr_ptr<std::uint32_t>;

struct ThreadState {
  std::optional<Ptr> p[kSlots];
  std::byte* sp[kSlots] = {};
  std::optional<Span> s[kSpanSlots];
  std::span<std::byte> ss[kSpanSlots];
  std::optional<WSpan> w[kSpanSlots];
  std::span<std::uint32_t> ws[kSpanSlots];
  int live_nonnull() const {
    int n = 0;
    for (int i = 0; i < kSlots; i++) if (p[i].has_value() && sp[i] != nullptr) n++;
    for (int i = 0; i < kSpanSlots; i++) if (s[i].has_value() && ss[i].data() != nullptr) n++;
    for (int i = 0; i < kSpanSlots; i++) if (w[i].has_value() && ws[i].data() != nullptr) n++;
    return n;
  }
};

struct Counters { uint64_t probes_rejected = 0, probes_accepted = 0, ops = 0, null_ops_while_paused = 0; };

struct PtrEngine final : Engine {
  const char* name() const override { return "ptrsim"; }
  uint64_t schedules_per_program() const override { return 8; }

  // The generator tracks a shadow of its own so that every pointer stays inside [buf, buf + kBufLen].
  Case generate(uint64_t seed, const std::string& tier) override {
    Case c;
    c.engine = name();
    c.seed = seed;
    Rng r = stream(seed, S_WORKLOAD);
    const int nthreads = static_cast<int>(r.range(2, 3));
    const int maxops = tier == "thorough" ? 60 : 30;
    for (int t = 0; t < nthreads; t++) {
      struct G { bool alive = false; int buf = -1; std::ptrdiff_t off = 0; } g[kSlots];
      struct GS { bool alive = false; bool null = true; } gs[kSpanSlots];
      std::vector<Op> ops;
      const int n = static_cast<int>(r.range(8, maxops));
      for (int i = 0; i < n; i++) {
        Op o;
        const int a = static_cast<int>(r.below(kSlots)), b = static_cast<int>(r.below(kSlots));
        const auto x = r.below(100);
        if (x < 12) { o.kind = r.chance(0.5) ? P_PROBE_QUIESCENT : P_PROBE_PAUSE; ops.push_back(o); continue; }
        if (r.chance(0.10)) {
          const auto y = r.below(100);
          o.a = static_cast<int64_t>(r.below(kSpanSlots)); o.b = 1 - o.a;
          if (y < 30) { o.kind = W_SPAN_CTOR; o.c = static_cast<int64_t>(r.below(16)); o.d = static_cast<int64_t>(r.below(16)); }
          else if (y < 45) o.kind = W_SPAN_COPY;
          else if (y < 60) o.kind = W_SPAN_MOVE_ASSIGN;
          else if (y < 75) o.kind = W_SPAN_ITERATE;
          else if (y < 88) o.kind = W_SPAN_DESTROY;
          else { o.kind = W_PTR_WALK; o.c = static_cast<int64_t>(r.below(16)); o.d = static_cast<int64_t>(r.below(16)); }
          ops.push_back(o);
          continue;
        }
        if (r.chance(0.04)) { o.kind = P_NULL_OPS_WHILE_PAUSED; ops.push_back(o); continue; }
        if (x < 24) {  // span operations
          const int sa = static_cast<int>(r.below(kSpanSlots)), sb = 1 - sa;
          o.a = sa; o.b = sb;
          if (!gs[sa].alive) {
            const auto y = r.below(100);
            if (y < 55) { o.kind = SP_CTOR; o.b = static_cast<int64_t>(r.below(kBufs)); o.c = static_cast<int64_t>(r.below(32)); o.d = static_cast<int64_t>(r.below(32)); gs[sa].alive = true; gs[sa].null = false; }
            else if (y < 70) { o.kind = SP_DEFAULT; gs[sa].alive = true; gs[sa].null = true; }
            else if (gs[sb].alive) { o.kind = y < 85 ? SP_COPY : SP_MOVE; gs[sa].alive = true; gs[sa].null = gs[sb].null; if (o.kind == SP_MOVE) gs[sb].null = true; }
            else continue;
          } else {
            const auto y = r.below(100);
            if (y < 35) o.kind = SP_ITERATE;
            else if (y < 60) { o.kind = SP_DESTROY; gs[sa].alive = false; }
            else if (gs[sb].alive) { o.kind = y < 80 ? SP_COPY_ASSIGN : SP_MOVE_ASSIGN; gs[sa].null = gs[sb].null; if (o.kind == SP_MOVE_ASSIGN) gs[sb].null = true; }
            else continue;
          }
          ops.push_back(o);
          continue;
        }
        o.a = a; o.b = b;
        if (!g[a].alive) {
          const auto y = r.below(100);
          if (y < 55) { o.kind = P_CTOR; o.b = static_cast<int64_t>(r.below(kBufs)); o.c = static_cast<int64_t>(r.below(kBufLen)); g[a] = {true, static_cast<int>(o.b), o.c}; }
          else if (y < 65) { o.kind = P_DEFAULT; g[a] = {true, -1, 0}; }
          else if (a != b && g[b].alive) { o.kind = y < 82 ? P_COPY : P_MOVE; g[a] = g[b]; if (o.kind == P_MOVE) g[b].buf = -1; }
          else continue;
          ops.push_back(o);
          continue;
        }
        const auto y = r.below(100);
        if (y < 10) { o.kind = P_DESTROY; g[a].alive = false; }
        else if (y < 22 && a != b && g[b].alive) { o.kind = y < 16 ? P_COPY_ASSIGN : P_MOVE_ASSIGN; g[a] = g[b]; g[a].alive = true; if (o.kind == P_MOVE_ASSIGN) g[b].buf = -1; }
        else if (y < 34 && a != b && g[b].alive && g[a].buf >= 0 && g[a].buf == g[b].buf) { o.kind = y < 28 ? P_DIFF : P_CMP; }
        else if (g[a].buf < 0) { o.kind = P_CMP; if (a == b || !g[b].alive || g[b].buf >= 0) { o.kind = P_DESTROY; g[a].alive = false; } }
        else {
          const std::ptrdiff_t off = g[a].off;
          const auto z = r.below(100);
          if (z < 10 && off < kBufLen) { o.kind = P_PREINC; g[a].off++; }
          else if (z < 20 && off > 0) { o.kind = P_PREDEC; g[a].off--; }
          else if (z < 28 && off < kBufLen) { o.kind = P_POSTINC; g[a].off++; }
          else if (z < 36 && off > 0) { o.kind = P_POSTDEC; g[a].off--; }
          else if (z < 46) { o.kind = P_ADD_ASSIGN; o.c = r.range(-off, kBufLen - off); g[a].off += o.c; }
          else if (z < 56) { o.kind = P_SUB_ASSIGN; o.c = r.range(off - kBufLen, off); g[a].off -= o.c; }
          else if (z < 64) { o.kind = P_PLUS; o.c = r.range(-off, kBufLen - off); }
          else if (z < 72) { o.kind = P_MINUS; o.c = r.range(off - kBufLen, off); }
          else if (z < 78) { o.kind = P_FRIEND_PLUS; o.c = r.range(-off, kBufLen - off); }
          else if (z < 86 && off < kBufLen) o.kind = P_DEREF;
          else if (z < 94) { o.kind = P_INDEX; o.c = r.range(-off, kBufLen - 1 - off); }
          else if (off < kBufLen) { o.kind = P_WRITE; o.c = static_cast<int64_t>(r.below(256)); }
          else continue;
        }
        ops.push_back(o);
      }
      c.threads.push_back(std::move(ops));
    }
    // allocation-failure probe (assertion-enabled builds, one program in 16): see fault_probe()
    Rng fr = stream(seed, S_FAULT);
    if (fr.chance(1.0 / 16)) {
      c.set_knob("fault_op", static_cast<int64_t>(fr.below(8)));
      c.set_knob("fault_k", fr.range(1, 3));
      c.set_knob("fault_then", static_cast<int64_t>(fr.below(2)));
    }
    return c;
  }

  // The registry of live wrappers (assertion-enabled builds) allocates. A wrapper operation inside which such an allocation
  // fails either does not complete (all of them are noexcept: the process ends in std::terminate) or leaves the tracking exact.
  // Run in a forked child, because the legitimate outcome takes the process down: exit 42 = the operation completed, a
  // non-null wrapper is alive, and the quiescent state / pause that follows was accepted.
  static int fault_child(int opk, int k, int then) {
#ifndef NDEBUG
    auto& me = unodb::this_thread();
    static std::byte buf[64];
    std::optional<Ptr> x, y;
    std::optional<Span> sp;
    x.emplace(buf + 3);
    if (opk == 3) y.emplace();
    arm_alloc_fault(k, true);
    try {
      switch (opk) {
        case 0: y.emplace(buf + 5); break;
        case 1: y.emplace(*x); break;
        case 2: y.emplace(std::move(*x)); break;
        case 3: *y = *x; break;
        case 4: ++*x; break;
        case 5: *x += 2; break;
        case 6: sp.emplace(std::span<std::byte>(buf + 1, 8)); break;
        default: { Ptr old = (*x)++; if (old.get() != buf + 3) return 42; break; }
      }
    } catch (const std::bad_alloc&) {
      disarm_alloc_fault();
      return 0;
    }
    const bool fired = alloc_fault_fired();
    disarm_alloc_fault();
    if (!fired) return 0;
    jmp_buf jb;
    if (setjmp(jb) == 0) {
      tls_assert_jmp = &jb;
      if (then == 0) me.quiescent(); else me.qsbr_pause();
      tls_assert_jmp = nullptr;
      return 42;  // accepted with a live non-null wrapper
    }
    tls_assert_jmp = nullptr;
    return 0;
#else
    (void)opk; (void)k; (void)then;
    return 0;
#endif
  }

  static void fault_probe(const Case& c) {
    const int opk = static_cast<int>(c.knob("fault_op", 0)), k = static_cast<int>(c.knob("fault_k", 1)), then = static_cast<int>(c.knob("fault_then", 0));
    fflush(stdout);
    const pid_t pid = fork();
    if (pid < 0) return;
    if (pid == 0) {
      const int devnull = open("/dev/null", O_WRONLY);
      if (devnull >= 0) { dup2(devnull, 1); dup2(devnull, 2); }
      alarm(20);
      _exit(fault_child(opk, k, then));
    }
    int status = 0;
    waitpid(pid, &status, 0);
    stats().bump("allocation_failure_probes_in_forked_child");
    if (!(WIFEXITED(status) && (WEXITSTATUS(status) == 0 || WEXITSTATUS(status) == 42))) stats().bump("allocation_failure_probes_ending_in_terminate");
    if (WIFEXITED(status) && WEXITSTATUS(status) == 42) {
      static const char* n[] = {"construct from pointer", "copy-construct", "move-construct", "copy-assign onto a null wrapper", "++p", "p += 2", "span: construct from std::span", "p++"};
      die("liveness-verdict", std::string("'") + n[opk & 7] + "' completed although allocation #" + std::to_string(k) + " inside it failed, and the " + (then == 0 ? "quiescent()" : "qsbr_pause()") +
                                  " that followed was accepted with the resulting non-null wrapper alive (it is not tracked)");
    }
  }

  std::string describe(const Op& o) const override {
    static const char* n[] = {"?", "construct from pointer", "default-construct", "copy-construct", "move-construct", "copy-assign", "move-assign", "++p", "--p", "p++", "p--",
                              "p +=", "p -=", "p + n", "p - n", "n + p", "p - q", "compare p,q", "*p", "p[n]", "*p = byte", "destroy",
                              "span: construct from std::span", "span: default-construct", "span: copy-construct", "span: move-construct", "span: copy-assign", "span: move-assign",
                              "span: iterate begin..end, size", "span: destroy", "probe quiescent()", "probe qsbr_pause() (+resume if accepted)",
                              "span<uint32_t>: construct", "span<uint32_t>: copy-construct", "span<uint32_t>: move-assign", "span<uint32_t>: iterate, size", "span<uint32_t>: destroy",
                              "qsbr_ptr<uint32_t>: arithmetic walk", "pause; copy/move/assign/destroy null wrappers; resume"};
    return std::string(n[o.kind <= P_NULL_OPS_WHILE_PAUSED ? o.kind : 0]) + " [slot " + std::to_string(o.a) + ", src/buf " + std::to_string(o.b) + ", n/off " + std::to_string(o.c) + ", len " + std::to_string(o.d) + "]";
  }

  static void mismatch(int tid, size_t i, const Op& o, const std::string& what) {
    die("ptr-mismatch", "t" + std::to_string(tid) + ".op" + std::to_string(i) + " (kind " + std::to_string(o.kind) + "): " + what);
  }

  static void body(Shared* sh, const Case* c, int tid, Counters* cnt) {
    const auto& ops = c->threads[static_cast<size_t>(tid - 1)];
    auto st = std::make_unique<ThreadState>();
    auto& me = unodb::this_thread();
    for (size_t i = 0; i < ops.size(); i++) {
      const Op& o = ops[i];
      op_begin(static_cast<int>(i));
      cnt->ops++;
      const auto a = static_cast<size_t>(o.a), b = static_cast<size_t>(o.b);
      auto same = [&](size_t slot) {
        if (st->p[slot]->get() != st->sp[slot]) mismatch(tid, i, o, "wrapper in slot " + std::to_string(slot) + " no longer holds the address its raw shadow holds");
      };
      switch (o.kind) {
        case P_CTOR: st->sp[a] = sh->buf[b] + o.c; st->p[a].emplace(st->sp[a]); same(a); break;
        case P_DEFAULT: st->sp[a] = nullptr; st->p[a].emplace(); same(a); break;
        case P_COPY: if (st->p[b]) { st->sp[a] = st->sp[b]; st->p[a].emplace(*st->p[b]); same(a); same(b); } break;
        case P_MOVE: if (st->p[b]) { st->sp[a] = st->sp[b]; st->sp[b] = nullptr; st->p[a].emplace(std::move(*st->p[b])); same(a); same(b); } break;
        case P_COPY_ASSIGN: if (st->p[a] && st->p[b]) { st->sp[a] = st->sp[b]; *st->p[a] = *st->p[b]; same(a); same(b); } break;
        case P_MOVE_ASSIGN: if (st->p[a] && st->p[b]) { st->sp[a] = st->sp[b]; st->sp[b] = nullptr; *st->p[a] = std::move(*st->p[b]); same(a); same(b); } break;
        case P_PREINC: if (st->p[a]) { auto& r = ++*st->p[a]; ++st->sp[a]; if (&r != &*st->p[a]) mismatch(tid, i, o, "++p did not return *this"); same(a); } break;
        case P_PREDEC: if (st->p[a]) { auto& r = --*st->p[a]; --st->sp[a]; if (&r != &*st->p[a]) mismatch(tid, i, o, "--p did not return *this"); same(a); } break;
        case P_POSTINC: if (st->p[a]) { const Ptr old = (*st->p[a])++; std::byte* sold = st->sp[a]++; if (old.get() != sold) mismatch(tid, i, o, "p++ returned the wrong value"); same(a); } break;
        case P_POSTDEC: if (st->p[a]) { const Ptr old = (*st->p[a])--; std::byte* sold = st->sp[a]--; if (old.get() != sold) mismatch(tid, i, o, "p-- returned the wrong value"); same(a); } break;
        case P_ADD_ASSIGN: if (st->p[a]) { *st->p[a] += o.c; st->sp[a] += o.c; same(a); } break;
        case P_SUB_ASSIGN: if (st->p[a]) { *st->p[a] -= o.c; st->sp[a] -= o.c; same(a); } break;
        case P_PLUS: if (st->p[a]) { const Ptr t = *st->p[a] + o.c; if (t.get() != st->sp[a] + o.c) mismatch(tid, i, o, "p + n"); same(a); } break;
        case P_MINUS: if (st->p[a]) { const Ptr t = *st->p[a] - o.c; if (t.get() != st->sp[a] - o.c) mismatch(tid, i, o, "p - n"); same(a); } break;
        case P_FRIEND_PLUS: if (st->p[a]) { const Ptr t = o.c + *st->p[a]; if (t.get() != st->sp[a] + o.c) mismatch(tid, i, o, "n + p"); same(a); } break;
        case P_DIFF: if (st->p[a] && st->p[b]) { if ((*st->p[a] - *st->p[b]) != (st->sp[a] - st->sp[b])) mismatch(tid, i, o, "p - q"); } break;
        case P_CMP:
          if (st->p[a] && st->p[b]) {
            const Ptr &x = *st->p[a], &y = *st->p[b];
            std::byte *sx = st->sp[a], *sy = st->sp[b];
            if ((x == y) != (sx == sy) || (x != y) != (sx != sy)) mismatch(tid, i, o, "== / !=");
            if (sx != nullptr && sy != nullptr)
              if ((x < y) != (sx < sy) || (x <= y) != (sx <= sy) || (x > y) != (sx > sy) || (x >= y) != (sx >= sy)) mismatch(tid, i, o, "ordering comparison");
          }
          break;
        case P_DEREF: if (st->p[a]) { if (&**st->p[a] != st->sp[a] || **st->p[a] != *st->sp[a] || st->p[a]->operator->() != st->sp[a]) mismatch(tid, i, o, "*p / p->"); } break;
        case P_INDEX: if (st->p[a]) { if (&(*st->p[a])[o.c] != &st->sp[a][o.c]) mismatch(tid, i, o, "p[n]"); } break;
        case P_WRITE: if (st->p[a]) { **st->p[a] = static_cast<std::byte>(o.c & 0xff); if (*st->sp[a] != static_cast<std::byte>(o.c & 0xff)) mismatch(tid, i, o, "write through *p"); } break;
        case P_DESTROY: st->p[a].reset(); st->sp[a] = nullptr; break;
        case SP_CTOR: st->ss[a] = std::span<std::byte>(sh->buf[b] + o.c, static_cast<size_t>(o.d)); st->s[a].emplace(st->ss[a]); break;
        case SP_DEFAULT: st->ss[a] = std::span<std::byte>(); st->s[a].emplace(); break;
        case SP_COPY: if (st->s[b]) { st->ss[a] = st->ss[b]; st->s[a].emplace(*st->s[b]); } break;
        case SP_MOVE: if (st->s[b]) { st->ss[a] = st->ss[b]; st->ss[b] = std::span<std::byte>(static_cast<std::byte*>(nullptr), st->ss[b].size()); st->s[a].emplace(std::move(*st->s[b])); } break;
        case SP_COPY_ASSIGN: if (st->s[a] && st->s[b]) { st->ss[a] = st->ss[b]; *st->s[a] = *st->s[b]; } break;
        case SP_MOVE_ASSIGN: if (st->s[a] && st->s[b]) { st->ss[a] = st->ss[b]; st->ss[b] = std::span<std::byte>(static_cast<std::byte*>(nullptr), st->ss[b].size()); *st->s[a] = std::move(*st->s[b]); } break;
        case SP_ITERATE:
          if (st->s[a]) {
            const Span& sp = *st->s[a];
            if (sp.size() != st->ss[a].size()) mismatch(tid, i, o, "span size");
            if (st->ss[a].data() != nullptr) {
              if (sp.begin().get() != st->ss[a].data()) mismatch(tid, i, o, "span begin");
              if (sp.end().get() != st->ss[a].data() + st->ss[a].size()) mismatch(tid, i, o, "span end");
              size_t k = 0;
              for (auto it = sp.begin(); it != sp.end(); ++it, ++k) if (&*it != &st->ss[a][k]) mismatch(tid, i, o, "span element sequence");
              if (k != st->ss[a].size()) mismatch(tid, i, o, "span element count");
            } else if (sp.begin().get() != nullptr) mismatch(tid, i, o, "moved-from/default span should hold nullptr");
          }
          break;
        case SP_DESTROY: st->s[a].reset(); st->ss[a] = std::span<std::byte>(); break;
        case W_SPAN_CTOR: st->ws[a] = std::span<std::uint32_t>(sh->wide + o.c, static_cast<size_t>(o.d)); st->w[a].emplace(st->ws[a]); break;
        case W_SPAN_COPY: if (st->w[b]) { st->ws[a] = st->ws[b]; st->w[a].emplace(*st->w[b]); } break;
        case W_SPAN_MOVE_ASSIGN: if (st->w[a] && st->w[b]) { st->ws[a] = st->ws[b]; st->ws[b] = std::span<std::uint32_t>(static_cast<std::uint32_t*>(nullptr), st->ws[b].size()); *st->w[a] = std::move(*st->w[b]); } break;
        case W_SPAN_ITERATE:
          if (st->w[a]) {
            const WSpan& sp = *st->w[a];
            if (sp.size() != st->ws[a].size()) mismatch(tid, i, o, "size() of a span over 4-byte elements (" + std::to_string(sp.size()) + " instead of " + std::to_string(st->ws[a].size()) + " elements)");
            if (st->ws[a].data() != nullptr) {
              if (sp.begin().get() != st->ws[a].data() || sp.end().get() != st->ws[a].data() + st->ws[a].size()) mismatch(tid, i, o, "begin()/end() of a span over 4-byte elements");
              size_t k = 0;
              for (auto it = sp.begin(); it != sp.end(); ++it, ++k) if (&*it != &st->ws[a][k] || *it != st->ws[a][k]) mismatch(tid, i, o, "element sequence of a span over 4-byte elements");
              if (k != st->ws[a].size()) mismatch(tid, i, o, "element count of a span over 4-byte elements");
            } else if (sp.begin().get() != nullptr) mismatch(tid, i, o, "moved-from span over 4-byte elements should hold nullptr");
          }
          break;
        case W_SPAN_DESTROY: st->w[a].reset(); st->ws[a] = std::span<std::uint32_t>(); break;
        case W_PTR_WALK: {
          // a pointer over 4-byte elements: arithmetic is in elements
          std::uint32_t* raw = sh->wide + o.c;
          WPtr p(raw);
          p += o.d; raw += o.d;
          if (p.get() != raw) mismatch(tid, i, o, "p += n over 4-byte elements");
          ++p; ++raw; p--; raw--;
          const WPtr q = p - o.d;
          if (q.get() != raw - o.d || (p - q) != o.d || &p[-o.d] != raw - o.d || *q != *(raw - o.d)) mismatch(tid, i, o, "pointer arithmetic over 4-byte elements");
          break;
        }
        case P_NULL_OPS_WHILE_PAUSED: {
          if (st->live_nonnull() != 0) break;  // pausing needs that anyway
          me.qsbr_pause();
          for (int k = 0; k < kSlots; k++)
            if (st->p[k].has_value() && st->sp[k] == nullptr) {
              Ptr copy(*st->p[k]);                 // copy-construct from a null wrapper
              Ptr moved(std::move(copy));          // move-construct
              *st->p[k] = moved;                   // copy-assign a null wrapper over a null wrapper
              if (st->p[k]->get() != nullptr || moved.get() != nullptr) mismatch(tid, i, o, "a null wrapper stopped being null");
            }
          { Ptr fresh; Ptr other; other = std::move(fresh); }   // default-construct, move-assign, destroy
          for (int k = 0; k < kSpanSlots; k++)
            if (st->s[k].has_value() && st->ss[k].data() == nullptr) { Span copy(*st->s[k]); *st->s[k] = std::move(copy); }
          me.qsbr_resume();
          cnt->null_ops_while_paused++;
          break;
        }
        case P_PROBE_QUIESCENT:
        case P_PROBE_PAUSE: {
#ifndef NDEBUG
          const bool expect_reject = st->live_nonnull() > 0;
          jmp_buf jb;
          volatile bool rejected = false;
          if (setjmp(jb) == 0) {
            tls_assert_jmp = &jb;
            if (o.kind == P_PROBE_QUIESCENT) me.quiescent(); else me.qsbr_pause();
            tls_assert_jmp = nullptr;
          } else {
            rejected = true;
          }
          tls_assert_jmp = nullptr;
          if (!rejected && o.kind == P_PROBE_PAUSE) me.qsbr_resume();
          if (rejected != expect_reject)
            die("liveness-verdict", "t" + std::to_string(tid) + ".op" + std::to_string(i) + ": " + (o.kind == P_PROBE_QUIESCENT ? "quiescent()" : "qsbr_pause()") + " was " +
                                        (rejected ? "rejected" : "accepted") + " with " + std::to_string(st->live_nonnull()) + " live non-null wrappers created on this thread");
          if (rejected) cnt->probes_rejected++; else cnt->probes_accepted++;
#else
          // NDEBUG: the tracking is compiled out; only probe where the precondition holds
          if (st->live_nonnull() == 0) {
            if (o.kind == P_PROBE_QUIESCENT) me.quiescent(); else { me.qsbr_pause(); me.qsbr_resume(); }
            cnt->probes_accepted++;
          }
#endif
          break;
        }
        default: break;
      }
      op_end();
      point(K_HARNESS, nullptr);
    }
    st.reset();  // all wrappers die before the thread's exit unregisters it
  }

  Result run(const Case& c) override {
    Result res;
    run_begin(c, measured_ptr());
#ifndef NDEBUG
    if (c.knob("fault_op", -1) >= 0) fault_probe(c);  // before any other thread exists
#endif
    auto sh = std::make_unique<Shared>();
    for (int b = 0; b < kBufs; b++) for (std::ptrdiff_t i = 0; i < kBufLen; i++) sh->buf[b][i] = static_cast<std::byte>((b * 64 + i) & 0xff);
    for (std::uint32_t i = 0; i < 32; i++) sh->wide[i] = 0x01010101u * i + 7;
    std::vector<Counters> cnt(c.threads.size());
    Shared* shp = sh.get();
    const Case* cp = &c;
    for (size_t t = 0; t < c.threads.size(); t++) {
      const int tid = static_cast<int>(t) + 1;
      Counters* cn = &cnt[t];
      spawn(tid, [shp, cp, tid, cn] { body(shp, cp, tid, cn); }, true);
    }
    unodb::this_thread().qsbr_pause();
    concurrent_begin();
    join_all();
    concurrent_end();
    unodb::this_thread().qsbr_resume();
    unodb::this_thread().quiescent();
    unodb::this_thread().quiescent();
    if (const std::string bad = qsbr_idle_selftest(); !bad.empty()) { res.ok = false; res.vclass = "qsbr-state-inconsistent"; res.detail = bad; }
    run_end(res);
    uint64_t rej = 0, acc = 0;
    for (auto& k : cnt) { rej += k.probes_rejected; acc += k.probes_accepted; }
    stats().bump("probes_rejected_with_live_wrapper", rej);
    stats().bump("probes_accepted_without_live_wrapper", acc);
    { uint64_t n = 0; for (auto& k : cnt) n += k.null_ops_while_paused; stats().bump("null_wrapper_operations_while_paused", n); }
#ifndef NDEBUG
    res.nontrivial = rej > 0 && acc > 0;
#else
    res.nontrivial = c.total_ops() >= 16;
#endif
    return res;
  }
};

}  // namespace

namespace sim {
Engine* make_ptr_engine() { return new PtrEngine(); }
}  // namespace sim
