// mutexsim engine: generator and dispatch over the two key kinds (see eng_mutex.hpp).
#include "eng_mutex.hpp"

namespace sim::mtx {

Result run_u64(const Case& c, const std::vector<uint32_t>* measured) { return Runner<std::uint64_t>::run(c, measured); }

namespace {

struct MutexEngine final : Engine {
  const char* name() const override { return "mutexsim"; }
  uint64_t schedules_per_program() const override { return 16; }

  Case generate(uint64_t seed, const std::string&) override {
    Case c;
    c.engine = name();
    c.seed = seed;
    Rng r = stream(seed, S_WORKLOAD);
    // small key pool with shared prefixes, so that operations restructure shared nodes
    std::vector<std::string> pool;
    const int keykind = r.chance(0.65) ? 0 : 1;
    c.set_knob("keykind", keykind);
    const int L = keykind == 0 ? 8 : static_cast<int>(r.range(2, 14));
    std::string base(static_cast<size_t>(L), '\0');
    for (auto& ch : base) ch = static_cast<char>(r.below(256));
    // both branching positions within the first 8 bytes: every subset of the pool keeps compressed paths <= 7 bytes
    const int lim = std::min(L, 8);
    const int p1 = static_cast<int>(r.below(static_cast<uint64_t>(lim - 1))), p2 = p1 + 1 + static_cast<int>(r.below(static_cast<uint64_t>(lim - 1 - p1)));
    const int n1 = static_cast<int>(r.range(1, 3)), n2 = r.chance(0.15) ? static_cast<int>(r.range(16, 18)) : static_cast<int>(r.range(2, 6));
    for (int a = 0; a < n1; a++)
      for (int b = 0; b < n2; b++) {
        std::string k = base;
        k[static_cast<size_t>(p1)] = static_cast<char>(base[static_cast<size_t>(p1)] + a * 37);
        k[static_cast<size_t>(p2)] = static_cast<char>(base[static_cast<size_t>(p2)] + b * 11);
        pool.push_back(k);
      }
    for (size_t i = pool.size(); i > 1; i--) std::swap(pool[i - 1], pool[r.below(i)]);
    const size_t npre = r.chance(0.4) ? pool.size() - r.below(2) : r.below(pool.size() + 1);  // often (nearly) full: nodes sit at a class boundary
    uint64_t vid = 0;
    for (size_t i = 0; i < npre; i++) {
      Op o; o.kind = M_INSERT; o.key = pool[i]; o.a = static_cast<int64_t>(++vid); o.b = r.chance(0.12) ? r.range(0, 7) : r.range(8, 24);
      c.prefill.push_back(o);
    }
    std::vector<std::string> focus;
    for (size_t i = 0; i < pool.size() && focus.size() < 4; i++) if (r.chance(0.6)) focus.push_back(pool[i]);
    if (focus.empty()) focus.push_back(pool[0]);
    auto pick = [&]() { return r.chance(0.8) ? focus[r.below(focus.size())] : pool[r.below(pool.size())]; };
    const auto tx = r.below(100);
    const int nthreads = tx < 35 ? 2 : (tx < 65 ? 3 : (tx < 80 ? 4 : static_cast<int>(r.range(5, 8))));
    for (int t = 0; t < nthreads; t++) {
      std::vector<Op> ops;
      // at most 22 operations in all, so that the whole-history linearizability search (capped at 24) always applies
      const int n = nthreads >= 7 ? static_cast<int>(r.range(1, 2)) : (nthreads >= 5 ? static_cast<int>(r.range(1, 3)) : static_cast<int>(r.range(2, nthreads >= 4 ? 4 : 5)));
      for (int i = 0; i < n; i++) {
        Op o;
        o.key = pick();
        o.key2 = pick();
        const auto x = r.below(100);
        if (x < 30) { o.kind = M_GET; o.c = r.range(0, 3); }
        else if (x < 55) { o.kind = M_INSERT; o.a = (static_cast<int64_t>(t + 1) << 24) | (static_cast<int64_t>(i + 1) << 8) | 1; o.b = r.chance(0.15) ? r.range(0, 7) : r.range(8, 32); }
        else if (x < 80) o.kind = M_REMOVE;
        else if (x < 83) o.kind = M_EMPTY;
        else if (x < 85) o.kind = M_CLEAR;
        else if (x < 86) o.kind = M_DUMP;
        else if (x < 89) o.kind = r.chance(0.5) ? M_MEMUSE : M_NODECOUNTS;
        else { const auto s = r.below(3); o.kind = s == 0 ? M_SCAN : (s == 1 ? M_SCAN_FROM : M_SCAN_RANGE); o.a = r.chance(0.6); o.b = r.chance(0.25) ? r.range(1, 3) : -1; }
        ops.push_back(o);
      }
      c.threads.push_back(std::move(ops));
    }
    // allocation failures inside inserts (leaf, new inner node) and removes (the smaller node of a shrink)
    Rng fr = stream(seed, S_FAULT);
    if (fr.chance(0.4))
      for (size_t t = 0; t < c.threads.size(); t++)
        for (size_t i = 0; i < c.threads[t].size(); i++)
          if ((c.threads[t][i].kind == M_INSERT || c.threads[t][i].kind == M_REMOVE) && fr.chance(0.3))
            c.faults.push_back({static_cast<int>(t) + 1, static_cast<int>(i), 1, static_cast<int>(fr.range(1, 2)), 0});
    return c;
  }

  std::string describe(const Op& o) const override {
    switch (o.kind) {
      case M_GET: return "get(" + hex(o.key) + "), re-read the value " + std::to_string(o.c) + " times while holding the handle, release";
      case M_INSERT: return "insert(" + hex(o.key) + ", value#" + std::to_string(o.a) + " len " + std::to_string(o.b) + ")";
      case M_REMOVE: return "remove(" + hex(o.key) + ")";
      case M_EMPTY: return "empty()";
      case M_CLEAR: return "clear()";
      case M_DUMP: return "dump(ostream)";
      case M_MEMUSE: return "get_current_memory_use()";
      case M_NODECOUNTS: return "get_node_counts()";
      case M_SCAN: return std::string("scan(") + (o.a ? "fwd" : "rev") + (o.b > 0 ? ", halt after " + std::to_string(o.b) : "") + ")";
      case M_SCAN_FROM: return "scan_from(" + hex(o.key) + ", " + (o.a ? "fwd" : "rev") + (o.b > 0 ? ", halt after " + std::to_string(o.b) : "") + ")";
      case M_SCAN_RANGE: return "scan_range(" + hex(o.key) + ", " + hex(o.key2) + (o.b > 0 ? ", halt after " + std::to_string(o.b) : "") + ")";
      default: return "?";
    }
  }


  Result run(const Case& c) override {
    stats().bump(c.knob("keykind", 0) ? "programs_byte_string_keys" : "programs_uint64_keys");
    stats().bump("programs_with_" + std::to_string(c.threads.size()) + "_threads");
    return c.knob("keykind", 0) == 0 ? run_u64(c, measured_ptr()) : run_kv(c, measured_ptr());
  }
};

}  // namespace
}  // namespace sim::mtx

namespace sim {
Engine* make_mutex_engine() { return new mtx::MutexEngine(); }
}  // namespace sim
