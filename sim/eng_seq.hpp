// seqsim -- one operation in flight at a time, against the map model M1, the
// radix-shape model M2 and the allocation ledger M3. Serves C01 (point
// operations), C02 (scans), C08 (allocation-failure / length-error
// enumeration), C10 (shape, statistics, memory accounting) and C16 (same
// seeds in every build configuration). Templated on index class and key type.
#pragma once

#include <functional>
#include <map>
#include <memory>
#include <optional>
#include <stdexcept>

#include "global.hpp"
#include "art.hpp"
#include "mutex_art.hpp"
#include "olc_art.hpp"
#include "qsbr.hpp"

#include "models.hpp"
#include "sched.hpp"

namespace sim::seq {

enum SKind {
  S_INSERT = 1, S_REMOVE = 2, S_GET = 3, S_EMPTY = 4, S_CLEAR = 5, S_SCAN = 6, S_SCAN_FROM = 7, S_SCAN_RANGE = 8,
  S_QUIESCE = 9, S_PAUSE_RESUME = 10, S_LENGTH_ERROR = 11, S_QSBR_FAULTS = 12
};
// Op fields: key, key2 (scan_range `to`); a = value id (insert) / forward? (scans); b = value length (insert) /
// halt after b visits (scans, -1 never) ; c = bound buffer placement (scans: 0 = from below to, 1 = from above to) /
// which argument is over-long (length error: 0 value, 1 key); d = executing simulated thread

template <class Key> struct KeyConv;
template <> struct KeyConv<std::uint64_t> {
  static std::uint64_t make(const char* p, size_t n) {
    std::uint64_t k = 0;
    for (size_t i = 0; i < 8; i++) k = (k << 8) | (i < n ? static_cast<unsigned char>(p[i]) : 0u);  // unused bounds may be empty
    return k;
  }
};
template <> struct KeyConv<unodb::key_view> {
  static unodb::key_view make(const char* p, size_t n) { return {reinterpret_cast<const std::byte*>(p), n}; }
};

template <class Db> struct Traits;
template <class K> struct Traits<unodb::db<K, unodb::value_view>> { static constexpr int kind = 0; using key = K; };
template <class K> struct Traits<unodb::mutex_db<K, unodb::value_view>> { static constexpr int kind = 1; using key = K; };
template <class K> struct Traits<unodb::olc_db<K, unodb::value_view>> { static constexpr int kind = 2; using key = K; };

struct View { const std::byte* p; size_t n; std::string copy; std::string key; int holder; };

struct Counters {
  uint64_t mem = 0;
  std::array<uint64_t, 5> nodes{};
  std::array<uint64_t, 4> grow{}, shrink{};
  uint64_t splits = 0;
  bool operator==(const Counters& o) const { return mem == o.mem && nodes == o.nodes && grow == o.grow && shrink == o.shrink && splits == o.splits; }
};

struct LedgerSnap {
  std::vector<std::pair<uintptr_t, size_t>> blocks;
  bool operator==(const LedgerSnap& o) const { return blocks == o.blocks; }
};
inline LedgerSnap ledger_snapshot() {
  LedgerSnap s;
  for (auto& kv : ledger()) if (kv.second.state == 0) s.blocks.emplace_back(kv.first, kv.second.size);
  return s;
}

// what the run leaves behind for the engine (C16 hashes, counters for evidence)
struct Outcome {
  uint64_t trace_hash = 0, counters_hash = 0;
  bool have_counters = false;
  unsigned kinds_of_events = 0;
  uint64_t faults_delivered = 0, fault_points = 0, length_errors = 0;
  uint64_t growth[4] = {}, shrinks[4] = {}, splits = 0, scans = 0, scan_visits = 0, views_checked = 0, aliased_bounds = 0, look_modify_look = 0;
  bool reached_nonrep = false;
};

// "is the key there?" the way callers write it: a small free function around get() that returns a scalar. With a lookup that
// the compiler may treat as independent of the index contents, calls of this helper with equal arguments are merged.
template <int DbKind, class Db, class K>
[[gnu::noinline]] bool key_present_in(const Db& d, K k) {
  if constexpr (DbKind == 1) return d.get(k).first.has_value(); else return d.get(k).has_value();
}

template <class Db>
struct Runner {
  using Key = typename Traits<Db>::key;
  static constexpr int kind = Traits<Db>::kind;
  using Visitor = unodb::visitor<typename Db::iterator>;

  Db* db = nullptr;
  const Case* c = nullptr;
  std::map<std::string, std::string> model;
  std::vector<View> views;
  Hasher trace, chash;
  Outcome out;
  Counters prev_counters, clear_baseline;
  Shape prev_shape;
  int focus = 0;
  int nthreads = 1;
  bool no_pause_ops = true;
  int nonrep_fd = -1;
  std::atomic<int> turn{0};
  // caller-side key buffers: exact-size heap blocks, so that AddressSanitizer's redzone starts at the byte after the key
  // (a read past the end of a short key is reported, not absorbed by a neighbouring buffer); for scan bounds the case
  // decides which of the two blocks lies at the lower address, so both address orders get exercised
  struct KeyBuf {
    std::unique_ptr<char[]> p;
    size_t n = 0;
    explicit KeyBuf(const std::string& k) : p(new char[k.size() ? k.size() : 1]), n(k.size()) { std::memcpy(p.get(), k.data(), k.size()); }
    Key key() const { return KeyConv<Key>::make(p.get(), n); }
  };

  static std::string opname(int g, const Op& o) { return "op" + std::to_string(g) + "(kind " + std::to_string(o.kind) + " key " + hex(o.key) + ")"; }

  Counters counters() const {
    Counters k;
#ifdef UNODB_DETAIL_WITH_STATS
    k.mem = db->get_current_memory_use();
    const auto n = db->get_node_counts();
    for (size_t i = 0; i < 5; i++) k.nodes[i] = n[i];
    const auto g = db->get_growing_inode_counts();
    const auto s = db->get_shrinking_inode_counts();
    for (size_t i = 0; i < 4; i++) { k.grow[i] = g[i]; k.shrink[i] = s[i]; }
    k.splits = db->get_key_prefix_splits();
#endif
    return k;
  }

  bool deferred_frees_possible() const { return kind == 2 && nthreads >= 2; }

  // ---- views (C01) -------------------------------------------------------
  void recheck_views(int g) {
    for (auto& v : views) {
      out.views_checked++;
      const Block* b = find_block(v.p);
      if (b != nullptr && b->state != 0)
        die("view-freed", "value view of key " + hex(v.key) + " points into freed block #" + std::to_string(b->seq) + " at op " + std::to_string(g));
      if (v.n && memcmp(v.p, v.copy.data(), v.n) != 0)
        die("view-changed", "bytes behind an earlier value view of key " + hex(v.key) + " changed (observed after op " + std::to_string(g) + ")");
    }
  }
  void drop_views_of_key(const std::string& k) {
    for (size_t i = views.size(); i-- > 0;) if (views[i].key == k) views.erase(views.begin() + static_cast<long>(i));
  }
  void drop_views_of_holder(int t) {
    for (size_t i = views.size(); i-- > 0;) if (views[i].holder == t) views.erase(views.begin() + static_cast<long>(i));
  }
  // db / mutex_db: a view is guaranteed while its entry exists. olc_db: until the holder's next quiescent state --
  // unless the removing thread is the only registered one, in which case QSBR may execute the request at once
  // (C05: "only when at most one thread is registered may a request be executed at once"). No other thread can run
  // while an operation of a sequential history is in flight, so the answer is stable for the whole call.
  bool removal_frees_at_once() const {
    if constexpr (kind == 2) return unodb::qsbr_state::single_thread_mode(unodb::qsbr::instance().get_state());
    return true;
  }

  // ---- single operations ---------------------------------------------------
  std::optional<std::string> do_get(const std::string& key, int me, bool keep_view) {
    const KeyBuf kb(key);
    const Key k = kb.key();
    std::optional<std::string> r;
    if constexpr (kind == 0) {
      auto g = db->get(k);
      if (g.has_value()) {
        r = std::string(reinterpret_cast<const char*>(g->data()), g->size());
        if (keep_view) views.push_back({g->data(), g->size(), *r, key, me});
      }
    } else if constexpr (kind == 1) {
      auto g = db->get(k);
      const bool found = g.first.has_value();
      if (found != g.second.owns_lock())
        die("mutex-get-lock", std::string("mutex_db::get ") + (found ? "found the key but does not own the lock" : "missed but returned with the lock held"));
      if (found) {
        r = std::string(reinterpret_cast<const char*>(g.first->data()), g.first->size());
        if (keep_view) views.push_back({g.first->data(), g.first->size(), *r, key, me});
      }
    } else {
      auto g = db->get(k);
      if (g.has_value()) {
        const auto* p = g->begin().get();
        r = std::string(reinterpret_cast<const char*>(p), g->size());
        if (keep_view) views.push_back({p, g->size(), *r, key, me});
      }
    }
    return r;
  }

  bool do_insert(const std::string& key, const std::string& val) {
    const KeyBuf kb(key);
    return db->insert(kb.key(), unodb::value_view{reinterpret_cast<const std::byte*>(val.data()), val.size()});
  }
  bool do_remove(const std::string& key) {
    const KeyBuf kb(key);
    return db->remove(kb.key());
  }

  // get / modify / get / modify back / get on ONE key in straight-line code, the way callers write "look, change, look
  // again": the three lookups have identical arguments, so anything that lets the compiler treat a lookup as independent of
  // the index contents (a purity attribute that is too strong, a cached result) merges them. Leaves the key set as it was.
  void look_modify_look(int g, const Op& o) {
    const bool present = model.count(o.key) != 0;
    for (auto& v : views) if (v.key == o.key) return;
    if constexpr (std::is_same_v<Key, unodb::key_view>) {
      if (nonrep_fd >= 0) return;
      auto m2 = model;
      if (present) m2.erase(o.key); else m2[o.key];
      if (!shape_of_map(m2).representable) return;
    }
    const std::string val = present ? model[o.key] : make_value(0x7e57, 9);
    const unodb::value_view vv{reinterpret_cast<const std::byte*>(val.data()), val.size()};
    const KeyBuf kb(o.key);
    const Key k = kb.key();
    auto& d = *db;  // one address for all five calls (this->db would be reloaded after every modifying call)
    const bool a = key_present_in<kind>(d, k);
    const bool m1 = present ? d.remove(k) : d.insert(k, vv);
    const bool b = key_present_in<kind>(d, k);
    const bool m2 = present ? d.insert(k, vv) : d.remove(k);
    const bool c = key_present_in<kind>(d, k);
    trace.add(a); trace.add(m1); trace.add(b); trace.add(m2); trace.add(c);
    out.look_modify_look++;
    if (a != present || !m1 || b == present || !m2 || c != present)
      die("get-result", opname(g, o) + ": get / " + (present ? "remove" : "insert") + " / get / " + (present ? "insert" : "remove") + " / get on one key returned " +
          (a ? "found" : "missed") + " / " + (m1 ? "true" : "false") + " / " + (b ? "found" : "missed") + " / " + (m2 ? "true" : "false") + " / " + (c ? "found" : "missed") +
          ", the map model says the key was " + (present ? "present" : "absent") + " to begin with");
  }

  struct ScanOut { std::vector<std::pair<std::string, std::string>> kv; int calls_after_halt = 0; };
  ScanOut do_scan(const Op& o) {
    ScanOut so;
    bool halted = false;
    auto fn = [&](const Visitor& v) {
      if (halted) { so.calls_after_halt++; return true; }
      const auto kv = v.get_key();
      const auto val = v.get_value();
      if constexpr (kind == 2)
        so.kv.emplace_back(std::string(reinterpret_cast<const char*>(kv.data()), kv.size()), std::string(reinterpret_cast<const char*>(val.begin().get()), val.size()));
      else
        so.kv.emplace_back(std::string(reinterpret_cast<const char*>(kv.data()), kv.size()), std::string(reinterpret_cast<const char*>(val.data()), val.size()));
      if (o.b > 0 && static_cast<int64_t>(so.kv.size()) >= o.b) { halted = true; return true; }
      return false;
    };
    // bound buffers: two exact-size heap blocks; for bounds of equal length the case chooses their address order
    std::unique_ptr<char[]> b1(new char[std::max<size_t>(o.key.size(), 1)]), b2(new char[std::max<size_t>(o.key2.size(), 1)]);
    if (o.key.size() == o.key2.size() && ((b1.get() < b2.get()) != ((o.c & 1) == 0))) b1.swap(b2);  // bit 0 clear: from-buffer below to-buffer
    std::memcpy(b1.get(), o.key.data(), o.key.size());
    std::memcpy(b2.get(), o.key2.data(), o.key2.size());
    const char* fp = b1.get();
    const char* tp = b2.get();
    if ((o.c & 2) != 0) {  // both bounds are views into the one buffer that holds the longer of them
      const bool from_longer = o.key.size() >= o.key2.size();
      const std::string& lng = from_longer ? o.key : o.key2;
      const std::string& sht = from_longer ? o.key2 : o.key;
      if (lng.compare(0, sht.size(), sht) == 0) { fp = tp = from_longer ? b1.get() : b2.get(); out.aliased_bounds++; }
    }
    const Key from = KeyConv<Key>::make(fp, o.key.size());
    const Key to = KeyConv<Key>::make(tp, o.key2.size());
    if (o.kind == S_SCAN) db->scan(fn, o.a != 0);
    else if (o.kind == S_SCAN_FROM) db->scan_from(from, fn, o.a != 0);
    else db->scan_range(from, to, fn);
    return so;
  }
  std::vector<std::pair<std::string, std::string>> model_scan(const Op& o) const {
    std::vector<std::pair<std::string, std::string>> r;
    auto push_fwd = [&](auto it, auto end) { for (; it != end; ++it) { r.emplace_back(it->first, it->second); if (o.b > 0 && static_cast<int64_t>(r.size()) >= o.b) break; } };
    auto push_rev = [&](auto rit, auto rend) { for (; rit != rend; ++rit) { r.emplace_back(rit->first, rit->second); if (o.b > 0 && static_cast<int64_t>(r.size()) >= o.b) break; } };
    if (o.kind == S_SCAN) {
      if (o.a) push_fwd(model.begin(), model.end()); else push_rev(model.rbegin(), model.rend());
    } else if (o.kind == S_SCAN_FROM) {
      if (o.a) push_fwd(model.lower_bound(o.key), model.end());
      else push_rev(std::make_reverse_iterator(model.upper_bound(o.key)), model.rend());
    } else {
      if (o.key < o.key2) push_fwd(model.lower_bound(o.key), model.lower_bound(o.key2));
      else if (o.key > o.key2) push_rev(std::make_reverse_iterator(model.upper_bound(o.key)), std::make_reverse_iterator(model.upper_bound(o.key2)));
    }
    return r;
  }

  // ---- C08 helpers ------------------------------------------------------------
  struct Snapshot { Counters k; LedgerSnap led; bool qsbr_prev_empty, qsbr_cur_empty; unsigned threads; };
  Snapshot snapshot() const {
    Snapshot s;
    s.k = counters();
    s.led = ledger_snapshot();
    auto& q = unodb::qsbr::instance();
    s.qsbr_prev_empty = q.previous_interval_orphaned_requests_empty();
    s.qsbr_cur_empty = q.current_interval_orphaned_requests_empty();
    s.threads = unodb::qsbr_state::get_thread_count(q.get_state());
    return s;
  }
  void verify_unchanged(const Snapshot& before, const std::string& what, bool content = true) {
    const Snapshot now = snapshot();
    if (!(now.k == before.k)) die("fault-stats-changed", what + ": statistics/memory accounting differ after the failed operation");
    if (!(now.led == before.led)) die("fault-allocations-changed", what + ": the set of live allocations differs after the failed operation (" + std::to_string(before.led.blocks.size()) + " -> " + std::to_string(now.led.blocks.size()) + " blocks)");
    if (now.qsbr_prev_empty != before.qsbr_prev_empty || now.qsbr_cur_empty != before.qsbr_cur_empty || now.threads != before.threads)
      die("fault-qsbr-changed", what + ": QSBR state differs after the failed operation");
    if (!content) return;  // the index may not be touched while this thread is paused
    // content: every entry readable with equal bytes, nothing else present; full forward scan equal
    for (auto& kv : model) {
      auto g = do_get(kv.first, 0, false);
      if (!g.has_value() || *g != kv.second) die("fault-content-changed", what + ": entry " + hex(kv.first) + " lost or altered by the failed operation");
    }
    Op so; so.kind = S_SCAN; so.a = 1; so.b = -1;
    auto sc = do_scan(so);
    if (sc.kv.size() != model.size()) die("fault-content-changed", what + ": full scan delivers " + std::to_string(sc.kv.size()) + " entries, expected " + std::to_string(model.size()));
    size_t i = 0;
    for (auto& kv : model) { if (sc.kv[i].first != kv.first || sc.kv[i].second != kv.second) die("fault-content-changed", what + ": full scan differs after the failed operation"); i++; }
  }

  // Run `f` with the k-th allocation failing, for k = 1, 2, ... until it completes. Returns what the un-faulted run returned.
  template <class F>
  bool enumerate_faults(const std::string& what, bool count_new, F&& f, bool content = true, const std::function<void(int)>& after_fail = nullptr) {
    for (int k = 1; k < 64; k++) {
      const Snapshot before = snapshot();
      out.fault_points++;
      arm_alloc_fault(k, count_new);
      bool threw = false, result = false;
      try {
        result = f();
      } catch (const std::bad_alloc&) {
        threw = true;
      } catch (...) {
        disarm_alloc_fault();
        die("fault-wrong-exception", what + ": an exception other than std::bad_alloc reached the caller");
      }
      const bool fired = alloc_fault_fired();
      disarm_alloc_fault();
      if (threw) {
        if (!fired) die("fault-wrong-exception", what + ": std::bad_alloc without an injected fault");
        out.faults_delivered++;
        verify_unchanged(before, what + " with allocation #" + std::to_string(k) + " failing", content);
        if (after_fail) after_fail(k);
        continue;
      }
      if (fired) die("fault-swallowed", what + ": allocation #" + std::to_string(k) + " failed but no exception reached the caller");
      return result;
    }
    die("harness", what + ": more than 63 allocations in one operation");
  }

  // ---- one step of the history ----------------------------------------------
  // Known finding D1: once the key set needs a compressed path longer than 7 bytes the tree is mis-built, and nothing
  // observed afterwards says anything about another property. Generated histories avoid such sets (except the C01 ones run
  // in a forked child), but a shrunk candidate of the minimiser, or a history in which an injected fault made an insert
  // fail, can drift into one: from that point on the history is not judged any more.
  bool tainted = false;
  // called before an insert (remove) that the model says will succeed: would the key set stay representable?
  bool leaves_representable(const std::string& key, bool inserting) {
    if constexpr (std::is_same_v<Key, unodb::key_view>) {
      if (nonrep_fd >= 0 || tainted) return !tainted;
      auto m2 = model;
      if (inserting) m2[key]; else m2.erase(key);
      if (!shape_of_map(m2).representable) tainted = true;
    }
    return !tainted;
  }

  void exec(int g, const Op& o, int me) {
    if (tainted) return;
    const bool hold_views = focus == 1 || focus == 0 || focus == 16;
    const Counters before = (focus == 10 || focus == 0) ? counters() : Counters{};
    switch (o.kind) {
      case S_INSERT: {
        const std::string val = make_value(static_cast<uint64_t>(o.a), static_cast<size_t>(o.b));
        const bool expect = !model.count(o.key);
        if (expect && !leaves_representable(o.key, true)) return;
        if (nonrep_fd >= 0 && expect && !out.reached_nonrep) {
          auto m2 = model; m2[o.key] = val;
          if (!shape_of_map(m2).representable) { out.reached_nonrep = true; if (write(nonrep_fd, "N", 1) < 0) {} }
        }
        bool got;
        if (focus == 8) got = enumerate_faults("insert " + opname(g, o), false, [&] { return do_insert(o.key, val); });
        else if (focus == 10 && o.c > 0) {
          // one injected allocation failure: the operation may throw, after which everything (checked below) must be as before
          arm_alloc_fault(static_cast<int>(o.c), false);
          bool threw = false;
          try { got = do_insert(o.key, val); } catch (const std::bad_alloc&) { threw = true; got = false; }
          disarm_alloc_fault();
          if (threw) { out.faults_delivered++; trace.add(2); break; }
        }
        else got = do_insert(o.key, val);
        if (got != expect) die("insert-result", opname(g, o) + " returned " + (got ? "true" : "false") + ", the map model says " + (expect ? "true" : "false"));
        if (expect) model[o.key] = val;
        trace.add(got);
        break;
      }
      case S_REMOVE: {
        const bool expect = model.count(o.key) != 0;
        if (expect && !leaves_representable(o.key, false)) return;
        if (nonrep_fd >= 0 && expect && !out.reached_nonrep) {
          auto m2 = model; m2.erase(o.key);
          if (!shape_of_map(m2).representable) { out.reached_nonrep = true; if (write(nonrep_fd, "N", 1) < 0) {} }
        }
        const bool at_once = removal_frees_at_once();
        if (kind == 2) {
          // a thread that removes an entry itself gives up its own views of it: the guarantee is about entries removed
          // concurrently, and QSBR may execute the requester's own request as soon as nobody else is registered
          for (size_t i = views.size(); i-- > 0;)
            if (views[i].key == o.key && (at_once || views[i].holder == me)) views.erase(views.begin() + static_cast<long>(i));
        }
        bool got;
        if (focus == 8) got = enumerate_faults("remove " + opname(g, o), false, [&] { return do_remove(o.key); });
        else if (focus == 10 && o.c > 0) {
          arm_alloc_fault(static_cast<int>(o.c), false);
          bool threw = false;
          try { got = do_remove(o.key); } catch (const std::bad_alloc&) { threw = true; got = false; }
          disarm_alloc_fault();
          if (threw) { out.faults_delivered++; trace.add(2); break; }
        }
        else got = do_remove(o.key);
        if (got != expect) die("remove-result", opname(g, o) + " returned " + (got ? "true" : "false") + ", the map model says " + (expect ? "true" : "false"));
        if (expect) { model.erase(o.key); if (at_once) drop_views_of_key(o.key); }
        trace.add(got);
        break;
      }
      case S_GET: {
        if ((o.c & 4) != 0 && (focus == 1 || focus == 16)) look_modify_look(g, o);
        auto r = do_get(o.key, me, hold_views && views.size() < 24);
        auto it = model.find(o.key);
        if (r.has_value() != (it != model.end()))
          die("get-result", opname(g, o) + (r.has_value() ? " found" : " missed") + " a key the map model says is " + (it != model.end() ? "present" : "absent"));
        if (r.has_value() && *r != it->second) die("get-value", opname(g, o) + " returned bytes that differ from what the insert supplied");
        trace.add(r.has_value());
        if (r.has_value()) trace.add_str(*r);
        break;
      }
      case S_EMPTY: {
        const bool e = db->empty();
        if (e != model.empty()) die("empty-result", "empty() returned " + std::string(e ? "true" : "false") + " with " + std::to_string(model.size()) + " entries in the map model");
        trace.add(e);
        break;
      }
      case S_CLEAR: {
        views.clear();
        db->clear();
        model.clear();
        if (!db->empty()) die("clear-result", "empty() is false right after clear()");
        break;
      }
      case S_SCAN: case S_SCAN_FROM: case S_SCAN_RANGE: {
        auto so = do_scan(o);
        auto want = model_scan(o);
        out.scans++;
        out.scan_visits += so.kv.size();
        if (so.calls_after_halt) die("scan-after-halt", opname(g, o) + ": visitor called " + std::to_string(so.calls_after_halt) + " more times after it returned true");
        if (so.kv != want) {
          std::string d = opname(g, o) + " to " + hex(o.key2) + (o.a ? " fwd" : " rev") + ": delivered " + std::to_string(so.kv.size()) + " entries, the map model gives " + std::to_string(want.size());
          for (size_t i = 0; i < std::max(so.kv.size(), want.size()); i++)
            if (i >= so.kv.size() || i >= want.size() || so.kv[i] != want[i]) {
              d += "; first difference at position " + std::to_string(i) + ": got " + (i < so.kv.size() ? hex(so.kv[i].first) : std::string("end")) + ", expected " + (i < want.size() ? hex(want[i].first) : std::string("end"));
              break;
            }
          die("scan-result", d);
        }
        trace.add(so.kv.size());
        for (auto& kv : so.kv) { trace.add_str(kv.first); trace.add_str(kv.second); }
        break;
      }
      case S_QUIESCE: {
        if constexpr (kind == 2) {
          recheck_views(g);
          drop_views_of_holder(me);
          unodb::this_thread().quiescent();
        }
        break;
      }
      case S_PAUSE_RESUME: {
        if constexpr (kind == 2) {
          recheck_views(g);
          drop_views_of_holder(me);
          if (focus == 8) {
            const Snapshot snap = snapshot();
            unodb::this_thread().qsbr_pause();
            enumerate_faults("qsbr_resume " + opname(g, o), true, [&] {
              unodb::this_thread().qsbr_resume();
              return true;
            }, false, [&](int k) {
              if (!unodb::this_thread().is_qsbr_paused())
                die("fault-qsbr-changed", "qsbr_resume with allocation #" + std::to_string(k) + " failing threw, but the thread no longer reports itself paused");
            });
            if (!unodb::this_thread().is_qsbr_paused()) verify_unchanged(snap, "pause + (faulted) resume");
          } else {
            unodb::this_thread().qsbr_pause();
            unodb::this_thread().qsbr_resume();
          }
        }
        break;
      }
      case S_LENGTH_ERROR: {
        const Snapshot snap = snapshot();
        bool threw = false;
        // an over-long value for a key that is already stored is a duplicate insert: it returns false before any leaf is built
        const bool duplicate = o.c == 0 && model.count(o.key) != 0;
        static const char small[16] = {1, 2, 3, 4, 5, 6, 7, 8, 9, 10, 11, 12, 13, 14, 15, 16};
        char lbuf[64];
        std::memcpy(lbuf, o.key.data(), std::min<size_t>(o.key.size(), sizeof lbuf));
        try {
          if (o.c == 0) {
            const bool r = db->insert(KeyConv<Key>::make(lbuf, o.key.size()), unodb::value_view{reinterpret_cast<const std::byte*>(small), (static_cast<size_t>(1) << 32) + static_cast<size_t>(o.b)});
            if (duplicate && !r) threw = true;  // accepted outcome, nothing to throw about
          } else if constexpr (std::is_same_v<Key, unodb::key_view>) {
            (void)db->insert(unodb::key_view{reinterpret_cast<const std::byte*>(lbuf), (static_cast<size_t>(1) << 32) + static_cast<size_t>(o.b)}, unodb::value_view{reinterpret_cast<const std::byte*>(small), 4});
          } else {
            threw = true;  // not applicable to fixed-width keys
          }
        } catch (const std::length_error&) {
          threw = true;
          out.length_errors++;
        } catch (...) {
          die("fault-wrong-exception", opname(g, o) + ": over-long argument raised something other than std::length_error");
        }
        if (!threw) die("length-error-missing", opname(g, o) + ": insert with an over-long " + (o.c ? "key" : "value") + " did not throw std::length_error");
        verify_unchanged(snap, "insert with over-long " + std::string(o.c ? "key" : "value"));
        break;
      }
      default: break;
    }
    if (kind != 2 || !deferred_frees_possible()) { /* views stay until entry removal */ }
    recheck_views(g);
    if (focus == 10 || focus == 0) check_shape(g, o, before);
    if (focus == 16 || focus == 10 || focus == 0) {
#ifdef UNODB_DETAIL_WITH_STATS
      const Counters k = counters();
      // memory use depends on sizeof(node), which legitimately differs between builds: leave it out of the cross-build hash
      for (auto v : k.nodes) chash.add(v);
      for (auto v : k.grow) chash.add(v);
      for (auto v : k.shrink) chash.add(v);
      chash.add(k.splits);
      out.have_counters = true;
#endif
    }
  }

  // ---- C10 ---------------------------------------------------------------------
  void check_shape(int g, const Op& o, const Counters& before) {
#ifdef UNODB_DETAIL_WITH_STATS
    const Shape sh = shape_of_map(model);
    if (!sh.representable) return;  // D1 territory, judged by C01 only
    const Counters k = counters();
    const std::string at = " after " + opname(g, o);
    if (k.nodes[0] != model.size()) die("leaf-count", "reported leaf count " + std::to_string(k.nodes[0]) + " != number of entries " + std::to_string(model.size()) + at);
    for (size_t i = 0; i < 4; i++)
      if (k.nodes[i + 1] != sh.inodes[i])
        die("shape", "reported inner nodes " + std::to_string(k.nodes[1]) + "/" + std::to_string(k.nodes[2]) + "/" + std::to_string(k.nodes[3]) + "/" + std::to_string(k.nodes[4]) +
                         " differ from the radix tree of the key set " + std::to_string(sh.inodes[0]) + "/" + std::to_string(sh.inodes[1]) + "/" + std::to_string(sh.inodes[2]) + "/" +
                         std::to_string(sh.inodes[3]) + at);
    if (model.empty() && k.mem != 0) die("memory-accounting", "empty index reports " + std::to_string(k.mem) + " bytes in use" + at);
    if (!deferred_frees_possible()) {
      int nb = 0;
      const size_t held = live_bytes(&nb);
      if (held != k.mem) die("memory-accounting", "allocator holds " + std::to_string(held) + " bytes, the index reports " + std::to_string(k.mem) + at);
      if (static_cast<uint64_t>(nb) != k.nodes[0] + k.nodes[1] + k.nodes[2] + k.nodes[3] + k.nodes[4])
        die("memory-accounting", std::to_string(nb) + " live blocks but " + std::to_string(k.nodes[0] + k.nodes[1] + k.nodes[2] + k.nodes[3] + k.nodes[4]) + " nodes reported" + at);
    }
    uint64_t moved = 0;
    for (size_t i = 0; i < 4; i++) {
      if (k.grow[i] < before.grow[i] || k.shrink[i] < before.shrink[i]) die("counter-decreased", "a growth/shrink counter decreased" + at);
      moved += (k.grow[i] - before.grow[i]) + (k.shrink[i] - before.shrink[i]);
      out.growth[i] += k.grow[i] - before.grow[i];
      out.shrinks[i] += k.shrink[i] - before.shrink[i];
    }
    if (k.splits < before.splits) die("counter-decreased", "the prefix split counter decreased" + at);
    out.splits += k.splits - before.splits;
    if (o.kind == S_CLEAR) clear_baseline = k;  // clear() removes nodes without touching the counters
    for (size_t i = 0; i < 4; i++) {
      auto d = [&](const std::array<uint64_t, 4>& now, const std::array<uint64_t, 4>& base, size_t j) { return static_cast<int64_t>(now[j]) - static_cast<int64_t>(base[j]); };
      const int64_t expect = d(k.grow, clear_baseline.grow, i) - d(k.shrink, clear_baseline.shrink, i) -
                             (i < 3 ? d(k.grow, clear_baseline.grow, i + 1) - d(k.shrink, clear_baseline.shrink, i + 1) : 0);
      if (expect != static_cast<int64_t>(k.nodes[i + 1]))
        die("counter-conservation", "growth/shrink counters imply " + std::to_string(expect) + " inner nodes of class #" + std::to_string(i) + ", the index reports " + std::to_string(k.nodes[i + 1]) + at);
    }
    if (o.kind != S_CLEAR) {
      const bool event = !(sh.inodes == prev_shape.inodes);
      if (moved != (event ? 1u : 0u))
        die("counter-event", "growth+shrink counters moved by " + std::to_string(moved) + " but the radix tree of the key set " + (event ? "gained, lost or re-classed one inner node" : "kept all its inner nodes") + at);
    }
    prev_shape = sh;
#else
    (void)g; (void)o; (void)before;
#endif
  }

  // ---- threads (mutex_db / olc_db histories are issued from several simulated threads) ------
  void thread_body(int me) {
    const auto& ops = c->threads[0];
    for (size_t g = 0; g < ops.size(); g++) {
      if (static_cast<int>(ops[g].d) % nthreads != me - 1) continue;
      while (turn.load(std::memory_order_relaxed) != static_cast<int>(g)) point(K_SPIN, nullptr);
      op_begin(static_cast<int>(g));
      {
        HooksOff off;  // one operation in flight at a time: no scheduling inside calls
        exec(static_cast<int>(g), ops[g], me);
      }
      op_end();
      turn.store(static_cast<int>(g) + 1, std::memory_order_relaxed);
    }
    drop_views_of_holder(me);
  }

  // ---- QSBR-level fault enumeration (C08: resume, thread start, deferred deallocation request) ----
  void qsbr_faults() {
    if constexpr (kind == 2) {
      auto& me = unodb::this_thread();
      // thread start
      {
        Case dummy;
        const bool started = enumerate_faults("qsbr_thread start", true, [&] {
          unodb::qsbr_thread t([] {});
          t.join();
          return true;
        });
        (void)started;
      }
      // deferred deallocation requests with a second thread registered (so that requests are queued), reached through a
      // seeded mini-program of {request, own quiescent state, quiescent state of the other thread}: the faulted request then
      // meets every combination of "requests pending from the previous / the current interval" and "the other thread has
      // changed the epoch since this thread's last QSBR call". The other thread is a real thread that only moves when told to.
      {
        std::atomic<int> cmd{0}, ack{0};
        unodb::qsbr_thread other([&] {
          int seen = 0;
          while (true) {
            int cur;
            while ((cur = cmd.load(std::memory_order_acquire)) == seen) std::this_thread::yield();
            seen = cur;
            if (cur < 0) break;
            unodb::this_thread().quiescent();
            ack.store(cur, std::memory_order_release);
          }
        });
        int ncmd = 0;
        auto other_quiescent = [&] { cmd.store(++ncmd, std::memory_order_release); while (ack.load(std::memory_order_acquire) != ncmd) std::this_thread::yield(); };
        auto request = [&](void* p) {
          me.on_next_epoch_deallocate(p
#ifdef UNODB_DETAIL_WITH_STATS
                                      , 32
#endif
#ifndef NDEBUG
                                      , {}
#endif
          );
        };
        Rng qr = stream(c->seed, S_FAULT + 7);
        const int rounds = static_cast<int>(qr.range(1, 3));
        for (int round = 0; round < rounds; round++) {
          const int steps = static_cast<int>(qr.range(0, 7));
          for (int i = 0; i < steps; i++) {
            const auto x = qr.below(100);
            if (x < 40) request(unodb::detail::allocate_aligned(32));
            else if (x < 70) me.quiescent();
            else other_quiescent();
          }
          void* p = unodb::detail::allocate_aligned(32);
          bool queued = false;
          for (int k = 1; k < 16 && !queued; k++) {
            const Snapshot before = snapshot();
            const bool cur_empty = me.current_interval_requests_empty(), prev_empty = me.previous_interval_requests_empty();
#ifdef UNODB_DETAIL_WITH_STATS
            const std::size_t pending_bytes = me.get_current_interval_total_dealloc_size();
#endif
            out.fault_points++;
            arm_alloc_fault(k, true);
            bool threw = false;
            try {
              request(p);
            } catch (const std::bad_alloc&) {
              threw = true;
            }
            const bool fired = alloc_fault_fired();
            disarm_alloc_fault();
            if (threw) {
              out.faults_delivered++;
              const Snapshot now = snapshot();
              if (!(now.led == before.led))
                die("fault-allocations-changed", "on_next_epoch_deallocate with allocation #" + std::to_string(k) + " failing changed the live allocations (" + std::to_string(before.led.blocks.size()) + " -> " +
                                                     std::to_string(now.led.blocks.size()) + " blocks): earlier requests were executed by the failed call");
              if (me.current_interval_requests_empty() != cur_empty || me.previous_interval_requests_empty() != prev_empty)
                die("fault-qsbr-changed", "on_next_epoch_deallocate threw but the thread's pending-request lists changed (current empty " + std::to_string(cur_empty) + " -> " +
                                              std::to_string(me.current_interval_requests_empty()) + ", previous empty " + std::to_string(prev_empty) + " -> " + std::to_string(me.previous_interval_requests_empty()) + ")");
              if (now.qsbr_prev_empty != before.qsbr_prev_empty || now.qsbr_cur_empty != before.qsbr_cur_empty || now.threads != before.threads)
                die("fault-qsbr-changed", "on_next_epoch_deallocate threw but the global QSBR state changed");
#ifdef UNODB_DETAIL_WITH_STATS
              if (me.get_current_interval_total_dealloc_size() != pending_bytes)
                die("fault-stats-changed", "on_next_epoch_deallocate threw (allocation #" + std::to_string(k) + ") but the thread's current-interval deallocation size went from " +
                                               std::to_string(pending_bytes) + " to " + std::to_string(me.get_current_interval_total_dealloc_size()) + " bytes");
#endif
            } else {
              if (fired) die("fault-swallowed", "on_next_epoch_deallocate: allocation failed but no exception reached the caller");
              queued = true;
            }
          }
        }
        // drain: alternate quiescent states until nothing is pending, then let the other thread go
        for (int i = 0; i < 4; i++) { me.quiescent(); other_quiescent(); }
        cmd.store(-1, std::memory_order_release);
        other.join();
        me.quiescent();
        me.quiescent();
        if (!me.current_interval_requests_empty() || !me.previous_interval_requests_empty())
          die("fault-qsbr-changed", "requests still pending after the drain that follows the faulted deferred-deallocation requests");
#ifdef UNODB_DETAIL_WITH_STATS
        if (me.get_current_interval_total_dealloc_size() != 0)
          die("fault-stats-changed", "nothing is pending after the drain, but the thread's current-interval deallocation size is " + std::to_string(me.get_current_interval_total_dealloc_size()) + " bytes");
#endif
      }
    }
  }

  // ---- run -----------------------------------------------------------------------------------
  void run_history() {
    const auto& ops = c->threads[0];
    nthreads = kind == 0 ? 1 : static_cast<int>(c->knob("nthreads", 1));
    if (nthreads < 1) nthreads = 1;
    no_pause_ops = true;
    for (auto& o : ops) if (o.kind == S_PAUSE_RESUME || o.kind == S_CLEAR) no_pause_ops = false;
    auto dbp = std::make_unique<Db>();
    db = dbp.get();
    name_region(db, sizeof(Db), 3);
    prev_shape = Shape{};
    if (nthreads == 1) {
      // C08: hooks stay active (simulated mutex ownership, lone-spin detection), so a lock left behind by a failed
      // operation is reported at the next operation instead of hanging the process
      if (focus == 8) concurrent_begin(); else hooks_off();
      for (size_t g = 0; g < ops.size(); g++) exec(static_cast<int>(g), ops[g], 0);
      if (focus != 8) hooks_on();
      if (focus == 8) {
        // later operations on every key complete (no lock left held): with hooks active
        for (auto& kv : model) (void)do_get(kv.first, 0, false);
        if (ops.size() % 3 == 0 || c->knob("qsbr_faults", 0)) qsbr_faults();
        concurrent_end();
      }
    } else {
      for (int t = 1; t <= nthreads; t++) {
        auto* self = this;
        spawn(t, [self, t] { self->thread_body(t); }, kind == 2);
      }
      if constexpr (kind == 2) unodb::this_thread().qsbr_pause();
      concurrent_begin();
      join_all();
      concurrent_end();
      if constexpr (kind == 2) unodb::this_thread().qsbr_resume();
    }
    views.clear();
    if constexpr (kind == 2) {
      unodb::this_thread().quiescent();
      unodb::this_thread().quiescent();
      if (const std::string bad = qsbr_idle_selftest(); !bad.empty()) die("qsbr-state-inconsistent", bad);
    }
    // final content check + accounting after quiescence
    if (!tainted)
    for (auto& kv : model) {
      auto g = do_get(kv.first, 0, false);
      if (!g.has_value() || *g != kv.second) die("final-content", "entry " + hex(kv.first) + " lost or altered at the end of the history");
    }
#ifdef UNODB_DETAIL_WITH_STATS
    {
      const Shape sh = shape_of_map(model);
      if (sh.representable && !tainted) {
        int nb = 0;
        const size_t held = live_bytes(&nb);
        if (held != db->get_current_memory_use())
          die("memory-accounting", "at the end of the history the allocator holds " + std::to_string(held) + " bytes, the index reports " + std::to_string(db->get_current_memory_use()));
      }
    }
#endif
    {
      const Counters k = counters();
      for (size_t i = 0; i < 4; i++) { out.growth[i] = k.grow[i]; out.shrinks[i] = k.shrink[i]; }
      out.splits = k.splits;
    }
    db = nullptr;
    dbp.reset();
    int nb = 0;
    const size_t bytes = live_bytes(&nb);
    if (nb != 0 && !tainted) die("leak", std::to_string(nb) + " blocks (" + std::to_string(bytes) + " bytes) still allocated after the index was destroyed");
    if (tainted) {  // whatever the mis-built tree left behind must not leak into the next run's ledger
      ledger_forget_all();
      out.reached_nonrep = true;
    }
    out.trace_hash = trace.h;
    out.counters_hash = chash.h;
  }
};

// per-instantiation entry points (one TU each)
Outcome run_db_u64(const Case& c, int focus, int nonrep_fd);
Outcome run_db_kv(const Case& c, int focus, int nonrep_fd);
Outcome run_mutex_u64(const Case& c, int focus, int nonrep_fd);
Outcome run_mutex_kv(const Case& c, int focus, int nonrep_fd);
Outcome run_olc_u64(const Case& c, int focus, int nonrep_fd);
Outcome run_olc_kv(const Case& c, int focus, int nonrep_fd);

template <class Db>
Outcome run_one(const Case& c, int focus, int nonrep_fd) {
  auto r = std::make_unique<Runner<Db>>();
  r->c = &c;
  r->focus = focus;
  r->nonrep_fd = nonrep_fd;
  r->run_history();
  return r->out;
}

}  // namespace sim::seq
