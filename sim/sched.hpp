// Deterministic scheduler over real, parked OS threads + link-time seams.
#pragma once

#include <atomic>
#include <csetjmp>
#include <functional>
#include <map>
#include <string>
#include <vector>

#include "core.hpp"

namespace sim {

enum Kind : int {
  K_LOCK_LOAD = 1, K_LOCK_CAS = 2, K_LOCK_STORE = 3, K_FIELD_LOAD = 4, K_FIELD_STORE = 5,
  K_SPIN = 6, K_QS_LOAD = 7, K_QS_RMW = 8, K_QO_LOAD = 9, K_QO_RMW = 10, K_QO_LINK = 11,
  K_FAKE_LOAD = 12, K_FAKE_STORE = 13,
  K_AUTO_LOAD = 14, K_AUTO_STORE = 15, K_AUTO_RMW = 16,  // compiler-inserted (atomic_shim.cpp, hookall builds)
  // harness-side kinds
  K_ALLOC = 20, K_FREE = 21, K_MUTEX_LOCK = 22, K_MUTEX_UNLOCK = 23, K_OP = 24, K_HARNESS = 25,
  K_THREAD_START = 26, K_THREAD_END = 27, K_BLOCKED = 28, K_KIND_MAX = 32
};

enum Strategy : int { ST_SEQUENTIAL = 0, ST_PB = 1, ST_PCT = 2, ST_RW = 3, ST_RR = 4, ST_CONFLICT = 5, ST_SWEEP2 = 6, ST_LOCKSTEP = 7 };

struct Block {
  uintptr_t addr = 0;
  size_t size = 0;
  uint64_t seq = 0;   // allocation sequence number within the run
  int state = 0;      // 0 live, 1 logically freed (poisoned, really freed at run end)
  int thread = -1, op = -1;  // allocating sim thread / op
  uint64_t alloc_step = 0, free_step = 0;
  int free_thread = -1;
  int tag = 0;        // engine-defined
};

// ----- run lifecycle (thread 0 only) -----
void init_process();                       // once; makes the caller sim thread 0
void run_begin(const Case& c, const std::vector<uint32_t>* measured_len);
void concurrent_begin();                   // hooks become scheduling points
int spawn(int id, std::function<void()> body, bool qsbr_thread);  // sim thread id = index in Case.threads + 1
void join_all();                           // thread 0: simulated block until all others finished, then real joins
void concurrent_end();
void run_end(Result& r);                   // fills hash/steps/switches/realised/fired, frees logically freed blocks
std::vector<uint32_t> thread_lengths();    // weighted hook counts per thread of the last run
std::vector<uint32_t> thread_hook_counts(); // plain hook counts per thread of the last run
std::vector<uint32_t> thread_op0_hooks();   // hooks each thread executed inside its operation 0 in the last run
size_t conflict_point_count(int order_desc);  // conflict points recorded on the ascending (0) / descending (1) sequential schedule

// ----- from any sim thread -----
int self();                                // sim thread id, -1 outside
bool owns_any_mutex();                     // does the calling sim thread own a (simulated) mutex right now?
bool is_finished(int id);                  // the OS thread of sim thread `id` has run its TLS destructors and reported exit
uint64_t run_probe_count(int probe);       // how often a /repo probe fired in the current run
bool active();                             // inside concurrent phase
void op_begin(int op_index);               // scheduling point at operation boundary; arms faults of that op
void op_end();
uint64_t stamp();                          // totally ordered event stamp
void point(int kind, const void* addr);    // explicit scheduling point
void note(uint64_t v);                     // fold into the event-log hash
void hooks_off();                          // library calls made by oracles must not be scheduling points
void hooks_on();
struct HooksOff { HooksOff() { hooks_off(); } ~HooksOff() { hooks_on(); } };
[[noreturn]] void die(const std::string& vclass, const std::string& detail);
void set_die_context(uint64_t seed, const char* engine);
void enable_trace(bool on);                // keep full text of the event log
const std::vector<std::string>& trace();

// ----- fault control -----
void arm_alloc_fault(int k, bool count_new);  // fail the k-th allocation from now on this thread (0 = count only)
int disarm_alloc_fault();                      // returns number of allocations seen since arming
bool alloc_fault_fired();

// ----- ledger -----
const std::map<uintptr_t, Block>& ledger();
const Block* find_block(const void* p);
size_t live_bytes(int* nblocks = nullptr);     // blocks in state live
void set_alloc_callbacks(std::function<void(Block&)> on_alloc, std::function<void(Block&)> on_free);
void set_mutex_unlock_callback(std::function<void()> fn);  // called by the unlocking thread just before a (simulated) mutex is released
void name_region(const void* p, size_t n, uint64_t id);
void ledger_set_tracking(bool on);             // track posix_memalign blocks (default on)
// End-of-run self-test of the global QSBR state, from thread 0 with every other thread gone: exactly one thread registered,
// and one more quiescent state of that thread advances the epoch by exactly one. Anything else would poison the following
// runs of this worker (and be blamed on them). Returns a description of what is wrong, or an empty string.
std::string qsbr_idle_selftest();
void ledger_forget_all();                      // drop every ledger entry (blocks are left to the allocator); known-finding clean-up only

// ----- assertion interception (C17 probes) -----
extern thread_local jmp_buf* tls_assert_jmp;

// ----- statistics -----
struct Stats {
  uint64_t runs = 0, steps = 0, switches = 0;
  uint64_t kind_count[K_KIND_MAX] = {};
  uint64_t probes[16] = {};
  uint64_t buggify_fired[8] = {};
  uint64_t alloc_faults = 0;
  uint64_t forced_switches = 0, spin_switches = 0, mutex_blocks = 0, preemptions = 0;
  std::map<std::string, uint64_t> named;
  void bump(const std::string& k, uint64_t n = 1) { named[k] += n; }
};
Stats& stats();

}  // namespace sim
