// Deterministic scheduler over real, parked OS threads, plus the link-time
// seams (allocation, free, mutex, assertion) and the hook entry points that
// /repo calls when built with -DUNODB_DETAIL_VERIF_HOOKS.
#include "sched.hpp"

#include <linux/futex.h>
#include <pthread.h>
#include <signal.h>
#include <sys/syscall.h>
#include <unistd.h>

#include <cerrno>
#include <climits>
#include <new>
#include <thread>

#include "global.hpp"
#include "qsbr.hpp"

#if defined(__has_feature)
#if __has_feature(address_sanitizer)
#define SIM_ASAN 1
#endif
#endif
#if defined(__SANITIZE_ADDRESS__)
#define SIM_ASAN 1
#endif
#ifdef SIM_ASAN
#include <sanitizer/asan_interface.h>
#include <sanitizer/common_interface_defs.h>
#endif

extern "C" {
int __real_posix_memalign(void** p, size_t al, size_t sz);
void __real_free(void* p);
int __real_pthread_mutex_lock(pthread_mutex_t* m);
int __real_pthread_mutex_unlock(pthread_mutex_t* m);
int __real_pthread_mutex_trylock(pthread_mutex_t* m);
}

namespace sim {

thread_local jmp_buf* tls_assert_jmp = nullptr;

namespace {

struct SimThread {
  int id = 0;
  std::atomic<uint32_t> futex{0};
  enum St { RUNNABLE, BLOCKED_MUTEX, BLOCKED_JOIN, FINISHED, NOT_STARTED } state = RUNNABLE;
  const void* blocked_on = nullptr;
  int op = -1;
  uint32_t hook = 0;
  uint32_t weighted = 0;
  uint32_t total_hooks = 0;
  uint32_t op0_hooks = 0;
  uint32_t consecutive = 0;
  uint32_t lone_spins = 0;
  int hooks_off = 0;
  int harness_depth = 0;  // > 0 while harness code runs on this thread: its own allocations are never failed or counted
  bool in_sim = false;
  // allocation faults
  bool armed = false, count_new = false, fired = false;
  int fail_at = 0, allocs = 0;
  // buggify
  int buggify_calls = 0;
  std::vector<std::pair<int, int>> buggify_at;  // (k, site) for the current op (explicit mode)
  // PCT
  int64_t prio = 0;
  std::function<void()> body;
  std::unique_ptr<std::thread> os;
};

struct Region { uintptr_t lo, hi; uint64_t id; };

struct Global {
  std::vector<std::unique_ptr<SimThread>> threads;
  int current = 0;
  bool active = false;
  uint64_t step = 0, switches = 0;
  uint64_t budget = 400000;
  Hasher h;
  const Case* c = nullptr;
  bool explicit_sched = false;
  std::map<std::tuple<int, int, int>, int> sched_map;
  std::vector<SchedEntry> realised;
  std::vector<FaultEntry> fired;
  // strategy
  int strategy = ST_SEQUENTIAL;
  Rng srng{1}, brng{1};
  std::vector<uint32_t> len;  // measured weighted lengths per thread id
  struct Pre { int victim; uint32_t pos; bool used; };
  std::vector<Pre> pre;
  // conflict-directed preemption: accesses recorded on the sequential schedule of a program ...
  struct Access { int thread, op, hook, kind; uint64_t obj, off; };
  bool recording = false;
  std::vector<Access> accesses;
  // ... turned into points "thread T is about to read (or compare-and-swap) a location that thread W writes somewhere in
  // its program": preempting T just before or just after that access and running W is where lost validations show
  struct ConflictPoint { int thread, op, hook, writer; };
  std::vector<ConflictPoint> conflicts[2];  // recorded on the ascending / the descending sequential schedule
  uint64_t conflicts_program[2] = {UINT64_MAX, UINT64_MAX};
  bool order_desc = false;  // default policy at forced switches: next thread in descending instead of ascending id order
  struct CPre { int thread, op, hook, to; bool used; };
  std::vector<CPre> cpre;
  std::vector<uint64_t> pct_changes;
  size_t pct_next = 0;
  int64_t pct_low = 0;
  double rw_p = 0.1;
  int rr_q = 5;
  uint64_t strategy_steps = 60000;
  unsigned buggify_mask = 0;
  double buggify_p = 0.1;
  int buggify_budget = 0;
  // ledger
  std::map<uintptr_t, Block> ledger;
  uint64_t alloc_seq = 0;
  bool track = true;
  std::function<void(Block&)> on_alloc, on_free;
  std::function<void()> on_mutex_unlock;
  std::vector<Region> regions;
  // mutex ownership
  std::map<const void*, int> mutex_owner;
  // die context
  uint64_t seed = 0;
  std::string engine;
  bool tracing = false;
  std::vector<std::string> trace;
  std::vector<uint32_t> last_len, last_hooks, last_op0;
  // systematic double preemption (ST_SWEEP2): x runs to hook i of its operation 0, y runs to completion, z runs to hook j of
  // its operation 0, x completes, the rest follows the default policy
  struct Sweep2 { int x = 0, y = 0, z = 0, i = 0, j = 0, phase = 0; } sw;
  Stats stats;
  uint64_t run_probes[16] = {};
  pthread_key_t key;
};

Global g;
thread_local SimThread* tls_self = nullptr;

// The seams run harness code (ledger, owner table, event log) in the middle of library calls. What that code allocates is
// not an allocation of the operation under test: fault injection neither counts nor fails it.
struct HarnessScope {
  SimThread* st;
  HarnessScope() : st(tls_self) { if (st) st->harness_depth++; }
  ~HarnessScope() { if (st) st->harness_depth--; }
  HarnessScope(const HarnessScope&) = delete;
  HarnessScope& operator=(const HarnessScope&) = delete;
};

long futex_call(std::atomic<uint32_t>* addr, int opn, uint32_t val) {
  return syscall(SYS_futex, reinterpret_cast<uint32_t*>(addr), opn, val, nullptr, nullptr, 0);
}
void post(SimThread* t) {
  t->futex.store(1, std::memory_order_release);
  futex_call(&t->futex, FUTEX_WAKE_PRIVATE, 1);
}
void wait_baton(SimThread* t) {
  while (t->futex.load(std::memory_order_acquire) == 0) futex_call(&t->futex, FUTEX_WAIT_PRIVATE, 0);
  t->futex.store(0, std::memory_order_relaxed);
}

int weight(int kind) {
  switch (kind) {
    case K_LOCK_LOAD: case K_LOCK_CAS: case K_LOCK_STORE: return 4;
    case K_FIELD_STORE: return 2;
    case K_FIELD_LOAD: return 1;
    case K_ALLOC: case K_FREE: return 2;
    case K_QS_LOAD: case K_QS_RMW: case K_QO_LOAD: case K_QO_RMW: case K_QO_LINK: return 4;
    case K_MUTEX_LOCK: case K_MUTEX_UNLOCK: return 3;
    case K_FAKE_LOAD: case K_FAKE_STORE: return 1;
    case K_AUTO_LOAD: return 1;
    case K_AUTO_STORE: case K_AUTO_RMW: return 2;
    case K_HARNESS: return 3;
    default: return 1;
  }
}

std::vector<int> runnable_others(int self_id) {
  std::vector<int> r;
  for (auto& t : g.threads)
    if (t->id != self_id && t->state == SimThread::RUNNABLE) r.push_back(t->id);
  return r;
}

// next runnable thread after `self_id` in cyclic id order (descending order when the case says so), excluding self; -1 if none
int next_after(int self_id) {
  const int n = static_cast<int>(g.threads.size());
  for (int d = 1; d < n; d++) {
    auto& t = g.threads[static_cast<size_t>(g.order_desc ? (self_id - d + n) % n : (self_id + d) % n)];
    if (t->state == SimThread::RUNNABLE) return t->id;
  }
  return -1;
}

std::string describe_threads() {
  std::string s;
  for (auto& t : g.threads) {
    s += " t" + std::to_string(t->id) + ":";
    switch (t->state) {
      case SimThread::RUNNABLE: s += "runnable"; break;
      case SimThread::BLOCKED_MUTEX: s += "blocked-on-mutex"; break;
      case SimThread::BLOCKED_JOIN: s += "joining"; break;
      case SimThread::FINISHED: s += "finished"; break;
      case SimThread::NOT_STARTED: s += "not-started"; break;
    }
    s += "@op" + std::to_string(t->op) + "." + std::to_string(t->hook);
  }
  return s;
}

void switch_to(SimThread* self, SimThread* target, bool self_waits) {
  g.current = target->id;
  g.switches++;
  post(target);
  if (self_waits) wait_baton(self);
}

// Decide who runs next at a decision point of `st`. `forced`: st may not
// simply continue (it spins, blocks or has finished). `can_self`: st is still
// runnable (spin) -- if nobody else is, it continues.
int decide(SimThread* st, int kind, bool forced, bool can_self) {
  int def = st->id;
  if (forced) {
    def = next_after(st->id);
    if (def < 0) def = can_self ? st->id : -1;
  }
  if (def < 0) return -1;
  int target = def;
  if (g.explicit_sched) {
    auto it = g.sched_map.find({st->id, st->op, static_cast<int>(st->hook)});
    if (it != g.sched_map.end()) {
      int to = it->second;
      const int n = static_cast<int>(g.threads.size());
      if (to >= 0 && to < n && g.threads[static_cast<size_t>(to)]->state == SimThread::RUNNABLE &&
          !(forced && to == st->id && def != st->id))
        target = to;
    }
  } else if (g.strategy != ST_SEQUENTIAL && g.step < g.strategy_steps) {
    auto others = runnable_others(st->id);
    switch (g.strategy) {
      case ST_PB: {
        if (forced) {
          if (!others.empty()) target = others[g.srng.below(others.size())];
        } else if (kind == K_OP) {
          std::vector<int> all = others;
          all.push_back(st->id);
          std::sort(all.begin(), all.end());
          target = all[g.srng.below(all.size())];
        } else {
          for (auto& p : g.pre) {
            if (!p.used && p.victim == st->id && st->weighted >= p.pos) {
              p.used = true;
              if (!others.empty()) { target = others[g.srng.below(others.size())]; g.stats.preemptions++; }
              break;
            }
          }
        }
        break;
      }
      case ST_CONFLICT: {
        // forced switches follow the default policy, so that everything up to the preemption is the sequential schedule on
        // which the access was recorded (same tree, same hook indexes)
        if (!forced) {
          for (auto& p : g.cpre) {
            if (p.used || p.thread != st->id || p.op != st->op || p.hook != static_cast<int>(st->hook)) continue;
            p.used = true;
            const int n = static_cast<int>(g.threads.size());
            if (p.to > 0 && p.to < n && g.threads[static_cast<size_t>(p.to)]->state == SimThread::RUNNABLE) { target = p.to; g.stats.preemptions++; }
            else if (!others.empty()) { target = others[g.srng.below(others.size())]; g.stats.preemptions++; }
            break;
          }
        }
        break;
      }
      case ST_SWEEP2: {
        auto runnable = [&](int id) { return id > 0 && static_cast<size_t>(id) < g.threads.size() && g.threads[static_cast<size_t>(id)]->state == SimThread::RUNNABLE; };
        auto& sw = g.sw;
        if (forced) {
          if (sw.phase == 0 && st->id == 0 && runnable(sw.x)) target = sw.x;                                  // x starts
          else if (sw.phase == 1 && st->id == sw.y && runnable(sw.z)) { target = sw.z; sw.phase = 2; }       // y is done: z
          else if (sw.phase == 2 && st->id == sw.z && runnable(sw.x)) { target = sw.x; sw.phase = 3; }       // z ended before hook j
          else if (sw.phase == 0 && st->id == sw.x && runnable(sw.y)) { target = sw.y; sw.phase = 1; }       // x ended before hook i
        } else if (sw.phase == 0 && st->id == sw.x && st->op == 0 && static_cast<int>(st->hook) == sw.i && runnable(sw.y)) { target = sw.y; sw.phase = 1; g.stats.preemptions++; }
        else if (sw.phase == 2 && st->id == sw.z && st->op == 0 && static_cast<int>(st->hook) == sw.j && runnable(sw.x)) { target = sw.x; sw.phase = 3; g.stats.preemptions++; }
        break;
      }
      case ST_PCT: {
        if (g.pct_next < g.pct_changes.size() && g.step >= g.pct_changes[g.pct_next]) {
          g.pct_next++;
          st->prio = --g.pct_low;
        }
        if (kind == K_SPIN) st->prio = --g.pct_low;
        int best = -1; int64_t bp = INT64_MIN;
        for (auto& t : g.threads) {
          if (t->state != SimThread::RUNNABLE) continue;
          if (forced && t->id == st->id && !others.empty()) continue;
          if (!can_self && t->id == st->id) continue;
          if (t->prio > bp) { bp = t->prio; best = t->id; }
        }
        if (best >= 0) target = best;
        break;
      }
      case ST_RW: {
        if (!others.empty() && (forced || g.srng.chance(g.rw_p))) target = others[g.srng.below(others.size())];
        break;
      }
      case ST_LOCKSTEP: {
        // rounds: every thread runs its operation k before anybody runs operation k+1 (cyclic id order), plus a few
        // preemptions inside operations after which the round simply goes on with the next thread. Epoch-based progress needs
        // every thread to act once per epoch, which random operation orders rarely sustain for several epochs in a row.
        if (forced || kind == K_OP) {
          const int nx = next_after(st->id);
          if (nx >= 0) target = nx;
        } else {
          for (auto& p : g.pre) {
            if (!p.used && p.victim == st->id && st->weighted >= p.pos) {
              p.used = true;
              const int nx = next_after(st->id);
              if (nx >= 0) { target = nx; g.stats.preemptions++; }
              break;
            }
          }
        }
        break;
      }
      case ST_RR: {
        if (!others.empty() && (forced || (st->consecutive % static_cast<uint32_t>(g.rr_q)) == 0)) {
          int nx = next_after(st->id);
          if (nx >= 0) target = nx;
        }
        break;
      }
      default: break;
    }
  }
  if (target != def) g.realised.push_back({st->id, st->op, static_cast<int>(st->hook), target});
  return target;
}

void log_event(SimThread* st, int kind, const void* addr) {
  uint64_t obj = 0, off = 0;
  if (addr != nullptr) {
    const auto a = reinterpret_cast<uintptr_t>(addr);
    auto it = g.ledger.upper_bound(a);
    bool found = false;
    if (it != g.ledger.begin()) {
      --it;
      if (a < it->first + it->second.size) {
        found = true;
        obj = 1000 + it->second.seq;
        off = a - it->first;
        if (it->second.state != 0)
          die("uaf", "hooked access (kind " + std::to_string(kind) + ") by t" + std::to_string(st->id) +
                         " to block #" + std::to_string(it->second.seq) + "+" + std::to_string(off) +
                         " freed by t" + std::to_string(it->second.free_thread) + " at step " +
                         std::to_string(it->second.free_step));
      }
    }
    if (!found)
      for (auto& r : g.regions)
        if (a >= r.lo && a < r.hi) { obj = r.id; off = a - r.lo; break; }
  }
  g.h.add((g.step << 16) ^ (static_cast<uint64_t>(st->id) << 8) ^ static_cast<uint64_t>(kind));
  g.h.add((obj << 20) ^ off);
  if (g.recording && obj != 0 && st->id != 0 && g.accesses.size() < 20000)
    g.accesses.push_back({st->id, st->op, static_cast<int>(st->hook), kind, obj, off});
  if (g.tracing) {
    char buf[128];
    snprintf(buf, sizeof buf, "%llu t%d op%d.%u k%d obj%llu+%llu", static_cast<unsigned long long>(g.step), st->id,
             st->op, st->hook, kind, static_cast<unsigned long long>(obj), static_cast<unsigned long long>(off));
    g.trace.emplace_back(buf);
  }
}

void do_point(SimThread* st, int kind, const void* addr) {
  g.step++;
  st->hook++;
  st->total_hooks++;
  if (st->op == 0) st->op0_hooks++;
  g.stats.kind_count[kind < K_KIND_MAX ? kind : 0]++;
  log_event(st, kind, addr);
  if (g.step > g.budget)
    die("budget", "step budget exhausted (livelock or non-termination):" + describe_threads());
  st->weighted += static_cast<uint32_t>(weight(kind));
  st->consecutive++;
  const bool forced = (kind == K_SPIN) || st->consecutive > 5000;
  const int target = decide(st, kind, forced, true);
  if (kind == K_SPIN) {
    if (target == st->id) {
      if (++st->lone_spins > 3000)
        die("deadlock", "thread t" + std::to_string(st->id) +
                            " spin-waits while no other thread can run:" + describe_threads());
    } else {
      g.stats.spin_switches++;
    }
  }
  if (target != st->id) {
    if (forced) g.stats.forced_switches++;
    st->consecutive = 0;
    switch_to(st, g.threads[static_cast<size_t>(target)].get(), true);
  }
}

// The calling thread cannot continue (blocked or finished): hand the baton on.
void yield_blocked(SimThread* st, bool wait_for_baton) {
  g.step++;
  st->hook++;
  log_event(st, st->state == SimThread::FINISHED ? K_THREAD_END : K_BLOCKED, nullptr);
  const int target = decide(st, K_BLOCKED, true, false);
  if (target < 0) die("deadlock", "no runnable thread:" + describe_threads());
  g.stats.forced_switches++;
  st->consecutive = 0;
  switch_to(st, g.threads[static_cast<size_t>(target)].get(), wait_for_baton);
}

void maybe_release_joiner() {
  auto* t0 = g.threads[0].get();
  if (t0->state != SimThread::BLOCKED_JOIN) return;
  for (size_t i = 1; i < g.threads.size(); i++)
    if (g.threads[i]->state != SimThread::FINISHED && g.threads[i]->state != SimThread::NOT_STARTED) return;
  t0->state = SimThread::RUNNABLE;
}

void thread_finished(void* p) {
  auto* st = static_cast<SimThread*>(p);
  st->state = SimThread::FINISHED;
  st->in_sim = false;
  maybe_release_joiner();
  yield_blocked(st, false);
}

void trampoline(SimThread* st) {
  tls_self = st;
  pthread_setspecific(g.key, st);
  wait_baton(st);
  st->in_sim = true;
  st->body();
  st->body = nullptr;
  // Thread exit: C++ thread_local destructors (QSBR unregistration, with its
  // hooks) run first, then the pthread key destructor reports `finished`.
}

void unpoison(const Block& b) {
#ifdef SIM_ASAN
  __asan_unpoison_memory_region(reinterpret_cast<void*>(b.addr), b.size);
#else
  (void)b;
#endif
}

void write_all(const std::string& s) {
  size_t off = 0;
  while (off < s.size()) {
    ssize_t n = ::write(1, s.data() + off, s.size() - off);
    if (n <= 0) break;
    off += static_cast<size_t>(n);
  }
}

void on_sanitizer_death() {
  // AddressSanitizer/UBSan already printed its report to stderr.
  die("sanitizer", "AddressSanitizer/UBSan report (see stderr of the replay)");
}

void on_signal(int sig) {
  // Only async-signal-unsafe in theory; the process is going down anyway.
#ifdef SIM_ASAN
  __sanitizer_print_stack_trace();  // to stderr: the driver keeps the tail of every worker's stderr
#endif
  die(std::string("signal"), "signal " + std::to_string(sig));
}

}  // namespace

Stats& stats() { return g.stats; }
int self() { return tls_self ? tls_self->id : -1; }
bool owns_any_mutex() {
  if (!tls_self) return false;
  for (auto& kv : g.mutex_owner) if (kv.second == tls_self->id) return true;
  return false;
}
bool is_finished(int id) {
  return id >= 0 && static_cast<size_t>(id) < g.threads.size() && g.threads[static_cast<size_t>(id)]->state == SimThread::FINISHED;
}
uint64_t run_probe_count(int probe) { return g.run_probes[probe & 15]; }
bool active() { return g.active; }
uint64_t stamp() { return ++g.step; }
void note(uint64_t v) { g.h.add(v); }
void hooks_off() { if (tls_self) tls_self->hooks_off++; }
void hooks_on() { if (tls_self) tls_self->hooks_off--; }
void enable_trace(bool on) { g.tracing = on; }
const std::vector<std::string>& trace() { return g.trace; }
void set_die_context(uint64_t seed, const char* engine) { g.seed = seed; g.engine = engine; }
std::vector<uint32_t> thread_lengths() { return g.last_len; }
std::vector<uint32_t> thread_hook_counts() { return g.last_hooks; }
std::vector<uint32_t> thread_op0_hooks() { return g.last_op0; }
size_t conflict_point_count(int order_desc) { return g.conflicts[order_desc ? 1 : 0].size(); }

void die(const std::string& vclass, const std::string& detail) {
  static std::atomic<int> once{0};
  if (once.fetch_add(1) != 0) _exit(3);
  if (tls_self) tls_self->armed = false;
  J j = J::obj();
  j.set("ok", false).set("engine", g.engine).set("seed", g.seed).set("class", vclass).set("detail", detail);
  j.set("hash", std::to_string(g.h.h)).set("steps", g.step).set("switches", g.switches);
  J sc = J::arr();
  for (auto& e : g.realised) { J ej = J::arr(); ej.push(e.thread).push(e.op).push(e.hook).push(e.to); sc.push(ej); }
  j.set("realised", sc);
  J fl = J::arr();
  for (auto& f : g.fired) { J fj = J::arr(); fj.push(f.thread).push(f.op).push(f.kind).push(f.k).push(f.site); fl.push(fj); }
  j.set("fired", fl);
  J rp = J::arr();
  for (int i = 0; i < 10; i++) rp.push(g.run_probes[i]);
  j.set("run_probes", rp);
  if (g.tracing) {
    J tr = J::arr();
    size_t from = g.trace.size() > 400 ? g.trace.size() - 400 : 0;
    for (size_t i = from; i < g.trace.size(); i++) tr.push(g.trace[i]);
    j.set("trace_tail", tr);
  }
  write_all("RESULT " + j.str() + "\n");
  _exit(3);
}

void init_process() {
  pthread_key_create(&g.key, thread_finished);
  auto st = std::make_unique<SimThread>();
  st->id = 0;
  st->in_sim = true;
  tls_self = st.get();
  g.threads.push_back(std::move(st));
  struct sigaction sa;
  memset(&sa, 0, sizeof sa);
  sa.sa_handler = on_signal;
  sigaction(SIGABRT, &sa, nullptr);
#ifndef SIM_ASAN
  sigaction(SIGSEGV, &sa, nullptr);
  sigaction(SIGBUS, &sa, nullptr);
  sigaction(SIGFPE, &sa, nullptr);
  sigaction(SIGILL, &sa, nullptr);
#endif
  auto& q = unodb::qsbr::instance();
  name_region(&q, sizeof q, 1);
#ifdef SIM_ASAN
  __sanitizer_set_death_callback(on_sanitizer_death);
#endif
}

void name_region(const void* p, size_t n, uint64_t id) {
  const auto lo = reinterpret_cast<uintptr_t>(p);
  for (auto& r : g.regions)
    if (r.id == id) { r.lo = lo; r.hi = lo + n; return; }
  g.regions.push_back({lo, lo + n, id});
}

void run_begin(const Case& c, const std::vector<uint32_t>* measured_len) {
  g.threads.resize(1);
  auto* t0 = g.threads[0].get();
  t0->state = SimThread::RUNNABLE; t0->op = -1; t0->hook = 0; t0->weighted = 0; t0->total_hooks = 0; t0->op0_hooks = 0; t0->consecutive = 0;
  t0->lone_spins = 0; t0->hooks_off = 0; t0->armed = false; t0->fired = false; t0->buggify_calls = 0;
  t0->buggify_at.clear();
  g.current = 0; g.active = false; g.step = 0; g.switches = 0;
  g.h = Hasher();
  g.c = &c;
  g.realised.clear(); g.fired.clear(); g.trace.clear();
  for (auto& p : g.run_probes) p = 0;
  g.explicit_sched = c.explicit_schedule;
  g.sched_map.clear();
  for (auto& e : c.sched) g.sched_map[{e.thread, e.op, e.hook}] = e.to;
  g.mutex_owner.clear();
  g.alloc_seq = 0;
  g.budget = static_cast<uint64_t>(c.knob("budget", 400000));
  if (!g.ledger.empty()) die("harness", "ledger not empty at run start (" + std::to_string(g.ledger.size()) + " blocks)");
  // strategy
  g.strategy = static_cast<int>(c.knob("strategy", ST_SEQUENTIAL));
  g.order_desc = c.knob("order_desc", 0) != 0;
  const int64_t sparam = c.knob("sparam", 1);
  const uint64_t j = static_cast<uint64_t>(c.knob("sched_index", 0));
  g.srng = stream(c.seed, S_SCHEDULE);
  g.brng = stream(c.seed, S_BUGGIFY);
  g.len.clear();
  if (measured_len) g.len = *measured_len;
  const size_t nthreads = std::max<size_t>(c.threads.size(), static_cast<size_t>(c.knob("sim_threads", 0)));
  auto len_of = [&](int id) -> uint32_t {
    uint32_t l = (static_cast<size_t>(id) < g.len.size()) ? g.len[static_cast<size_t>(id)] : 0;
    return l > 0 ? l : 200;
  };
  g.pre.clear(); g.pct_changes.clear(); g.pct_next = 0; g.pct_low = 0;
  if (!g.explicit_sched && nthreads > 0) {
    if (g.strategy == ST_LOCKSTEP) g.stats.bump("lockstep_schedules");
    if (g.strategy == ST_PB || g.strategy == ST_LOCKSTEP) {
      for (int64_t i = 0; i < sparam; i++) {
        // low-discrepancy position over the victim's measured length (stratified by schedule index)
        const int victim = 1 + static_cast<int>((j + static_cast<uint64_t>(i) * 7 + g.srng.below(nthreads)) % nthreads);
        double u = static_cast<double>(j) * 0.6180339887498949 + static_cast<double>(i) * 0.4142135623730951 +
                   static_cast<double>(g.srng.below(1000)) / 1000.0;
        u -= static_cast<double>(static_cast<uint64_t>(u));
        const uint32_t L = len_of(victim) + len_of(victim) / 8 + 4;
        g.pre.push_back({victim, static_cast<uint32_t>(u * L), false});
      }
    } else if (g.strategy == ST_CONFLICT) {
      g.cpre.clear();
      const uint64_t program = static_cast<uint64_t>(c.knob("program_seed", -1));
      const size_t o = g.order_desc ? 1 : 0;
      if (g.conflicts_program[o] == program && !g.conflicts[o].empty()) {
        if (c.knob("cidx", -1) >= 0) {  // systematic sweep: the point and the side are given
          const auto& cp = g.conflicts[o][static_cast<size_t>(c.knob("cidx", 0)) % g.conflicts[o].size()];
          g.cpre.push_back({cp.thread, cp.op, cp.hook + static_cast<int>(c.knob("cside", 0)), cp.writer, false});
        } else
        for (int64_t i = 0; i < sparam; i++) {
          const auto& cp = g.conflicts[o][g.srng.below(g.conflicts[o].size())];
          // just before the access (the writer gets in first) or just after it (the value read goes stale)
          g.cpre.push_back({cp.thread, cp.op, cp.hook + (g.srng.chance(0.6) ? 1 : 0), cp.writer, false});
        }
        g.stats.bump("conflict_directed_schedules");
      } else {  // nothing recorded for this program (no shared accesses, or another program ran in between): plain PB
        g.strategy = ST_PB;
        for (int64_t i = 0; i < sparam; i++) {
          const int victim = 1 + static_cast<int>(g.srng.below(nthreads));
          const uint32_t L = len_of(victim) + len_of(victim) / 8 + 4;
          g.pre.push_back({victim, static_cast<uint32_t>(g.srng.below(L)), false});
        }
      }
    } else if (g.strategy == ST_SWEEP2) {
      g.sw = Global::Sweep2{};
      g.sw.x = static_cast<int>(c.knob("sw_x", 1)); g.sw.y = static_cast<int>(c.knob("sw_y", 2)); g.sw.z = static_cast<int>(c.knob("sw_z", 3));
      g.sw.i = static_cast<int>(c.knob("sw_i", 1)); g.sw.j = static_cast<int>(c.knob("sw_j", 1));
      g.stats.bump("systematic_double_preemption_schedules");
    } else if (g.strategy == ST_PCT) {
      uint64_t total = 0;
      for (size_t t = 1; t <= nthreads; t++) total += len_of(static_cast<int>(t));
      // lengths are weighted; convert roughly to steps
      total = total / 2 + 8;
      for (int64_t i = 0; i + 1 < sparam; i++) g.pct_changes.push_back(1 + g.srng.below(total));
      std::sort(g.pct_changes.begin(), g.pct_changes.end());
    } else if (g.strategy == ST_RW) {
      static const double ps[] = {0.02, 0.1, 0.5};
      g.rw_p = ps[static_cast<size_t>(sparam) % 3];
    } else if (g.strategy == ST_RR) {
      g.rr_q = static_cast<int>(sparam < 1 ? 1 : sparam);
    }
  }
  g.recording = !g.explicit_sched && c.knob("strategy", ST_SEQUENTIAL) == ST_SEQUENTIAL && c.knob("program_seed", -1) >= 0;
  if (g.recording) g.accesses.clear();
  g.buggify_mask = static_cast<unsigned>(c.knob("buggify_mask", 0));
  g.buggify_p = static_cast<double>(c.knob("buggify_pct", 10)) / 100.0;
  g.buggify_budget = static_cast<int>(c.knob("buggify_budget", 4));
  // placeholders: sim thread id i+1 runs c.threads[i] once somebody spawns it
  for (size_t i = 0; i < nthreads; i++) {
    auto st = std::make_unique<SimThread>();
    st->id = static_cast<int>(i + 1);
    st->state = SimThread::NOT_STARTED;
    g.threads.push_back(std::move(st));
  }
}

void concurrent_begin() { g.active = true; }
void concurrent_end() { g.active = false; }

int spawn(int id, std::function<void()> body, bool qsbr_thread) {
  if (id <= 0 || static_cast<size_t>(id) >= g.threads.size() ||
      g.threads[static_cast<size_t>(id)]->state != SimThread::NOT_STARTED)
    die("harness", "spawn of bad thread id " + std::to_string(id));
  SimThread* raw = g.threads[static_cast<size_t>(id)].get();
  raw->body = std::move(body);
  if (g.strategy == ST_PCT) raw->prio = 1000 + static_cast<int64_t>(g.srng.below(1000000));
  // The constructor may throw (injected allocation failure): the placeholder stays NOT_STARTED then.
  std::unique_ptr<std::thread> os;
  if (qsbr_thread) {
    unodb::qsbr_thread qt(trampoline, raw);
    os = std::make_unique<std::thread>(static_cast<std::thread&&>(qt));
  } else
    os = std::make_unique<std::thread>(trampoline, raw);
  raw->os = std::move(os);
  raw->state = SimThread::RUNNABLE;
  return raw->id;
}

void join_all() {
  auto* t0 = tls_self;
  bool all = true;
  for (size_t i = 1; i < g.threads.size(); i++)
    if (g.threads[i]->state != SimThread::FINISHED && g.threads[i]->state != SimThread::NOT_STARTED) all = false;
  if (!all) {
    t0->state = SimThread::BLOCKED_JOIN;
    yield_blocked(t0, true);
  }
  for (size_t i = 1; i < g.threads.size(); i++)
    if (g.threads[i]->os && g.threads[i]->os->joinable()) g.threads[i]->os->join();
}

void run_end(Result& r) {
  g.active = false;
  g.last_len.assign(g.threads.size(), 0);
  for (auto& t : g.threads) g.last_len[static_cast<size_t>(t->id)] = t->weighted;
  g.last_hooks.assign(g.threads.size(), 0);
  for (auto& t : g.threads) g.last_hooks[static_cast<size_t>(t->id)] = t->total_hooks;
  g.last_op0.assign(g.threads.size(), 0);
  for (auto& t : g.threads) g.last_op0[static_cast<size_t>(t->id)] = t->op0_hooks;
  for (auto it = g.ledger.begin(); it != g.ledger.end();) {
    if (it->second.state != 0) {
      unpoison(it->second);
      __real_free(reinterpret_cast<void*>(it->first));
      it = g.ledger.erase(it);
    } else {
      ++it;
    }
  }
  if (g.recording) {
    g.recording = false;
    const size_t o = g.order_desc ? 1 : 0;
    auto& conflicts = g.conflicts[o];
    conflicts.clear();
    g.conflicts_program[o] = static_cast<uint64_t>(g.c ? g.c->knob("program_seed", -1) : -1);
    auto is_write = [](int k) { return k == K_LOCK_CAS || k == K_LOCK_STORE || k == K_FIELD_STORE || k == K_QS_RMW || k == K_QO_RMW || k == K_QO_LINK || k == K_FAKE_STORE || k == K_AUTO_STORE || k == K_AUTO_RMW; };
    auto is_victim = [](int k) { return k == K_LOCK_LOAD || k == K_FIELD_LOAD || k == K_QS_LOAD || k == K_QO_LOAD || k == K_FAKE_LOAD || k == K_LOCK_CAS || k == K_QS_RMW || k == K_QO_RMW || k == K_AUTO_LOAD || k == K_AUTO_RMW; };
    std::map<std::pair<uint64_t, uint64_t>, std::vector<int>> writers;  // location -> threads that write it
    for (auto& a : g.accesses)
      if (is_write(a.kind)) { auto& v = writers[{a.obj, a.off}]; if (std::find(v.begin(), v.end(), a.thread) == v.end()) v.push_back(a.thread); }
    for (auto& a : g.accesses) {
      if (!is_victim(a.kind)) continue;
      auto it = writers.find({a.obj, a.off});
      if (it == writers.end()) continue;
      // only writers that have not run yet when the victim gets there under this order's default policy
      for (int w : it->second)
        if (w != a.thread && (o == 0 ? w > a.thread : w < a.thread) && conflicts.size() < 4000) conflicts.push_back({a.thread, a.op, a.hook, w});
    }
    g.stats.bump("conflict_points_recorded", conflicts.size());
    g.stats.bump("sequential_schedules_with_conflict_points", conflicts.empty() ? 0 : 1);
  }
  r.hash = g.h.h;
  r.steps = g.step;
  r.switches = g.switches;
  r.realised = g.realised;
  r.fired = g.fired;
  g.stats.runs++;
  g.stats.steps += g.step;
  g.stats.switches += g.switches;
  g.threads.resize(1);
}

void op_begin(int op_index) {
  auto* st = tls_self;
  st->op = op_index;
  st->hook = 0;
  st->buggify_calls = 0;
  st->buggify_at.clear();
  st->armed = false; st->fired = false; st->allocs = 0; st->fail_at = 0;
  if (g.c)
    for (auto& f : g.c->faults)
      if (f.thread == st->id && f.op == op_index) {
        if (f.kind == 1) { st->armed = true; st->fail_at = f.k; st->count_new = (f.site == 1); }
        else if (f.kind == 2) st->buggify_at.emplace_back(f.k, f.site);
      }
  if (g.active && st->hooks_off == 0) do_point(st, K_OP, nullptr);
}
void op_end() {
  auto* st = tls_self;
  st->armed = false;
  st->consecutive = 0;
}

void point(int kind, const void* addr) {
  auto* st = tls_self;
  if (!st || !g.active || !st->in_sim || st->hooks_off) return;
  HarnessScope hs;
  do_point(st, kind, addr);
}

void arm_alloc_fault(int k, bool count_new) {
  auto* st = tls_self;
  st->armed = true; st->fail_at = k; st->allocs = 0; st->count_new = count_new; st->fired = false;
}
int disarm_alloc_fault() { auto* st = tls_self; st->armed = false; return st->allocs; }
bool alloc_fault_fired() { return tls_self->fired; }

const std::map<uintptr_t, Block>& ledger() { return g.ledger; }
const Block* find_block(const void* p) {
  const auto a = reinterpret_cast<uintptr_t>(p);
  auto it = g.ledger.upper_bound(a);
  if (it == g.ledger.begin()) return nullptr;
  --it;
  return a < it->first + it->second.size ? &it->second : nullptr;
}
size_t live_bytes(int* nblocks) {
  size_t n = 0; int k = 0;
  for (auto& kv : g.ledger) if (kv.second.state == 0) { n += kv.second.size; k++; }
  if (nblocks) *nblocks = k;
  return n;
}
void set_alloc_callbacks(std::function<void(Block&)> on_alloc, std::function<void(Block&)> on_free) {
  g.on_alloc = std::move(on_alloc);
  g.on_free = std::move(on_free);
}
void set_mutex_unlock_callback(std::function<void()> fn) { g.on_mutex_unlock = std::move(fn); }
void ledger_set_tracking(bool on) { g.track = on; }
std::string qsbr_idle_selftest() {
  HooksOff off;
  auto& q = unodb::qsbr::instance();
  const auto s0 = q.get_state();
  const auto n0 = unodb::qsbr_state::get_thread_count(s0);
  if (n0 != 1) return "QSBR reports " + std::to_string(n0) + " registered threads after every thread but one has exited";
  const auto e0 = unodb::qsbr_state::get_epoch(s0);
  unodb::this_thread().quiescent();
  const auto s1 = q.get_state();
  if (unodb::qsbr_state::get_thread_count(s1) != 1 || !(unodb::qsbr_state::get_epoch(s1) == e0.advance()))
    return "a quiescent state of the only registered thread did not advance the epoch by one (threads-in-previous-epoch count left at " +
           std::to_string(unodb::qsbr_state::get_threads_in_previous_epoch(s0)) + " with " + std::to_string(n0) + " thread registered): the epoch is stuck";
  // what the library itself asserts when the process ends (assertion-enabled builds: state word invariants, no orphaned
  // request, no deallocation request object left alive); a failure arrives through the __assert_fail seam as class `assert`
  q.assert_idle();
  return "";
}

void ledger_forget_all() {
  for (auto& kv : g.ledger) unpoison(kv.second);
  g.ledger.clear();
}

// fault helper shared by the allocation seams; true = fail this allocation
static bool alloc_should_fail(SimThread* st) {
  if (!st || !st->in_sim || !st->armed || st->harness_depth > 0) return false;
  HarnessScope hs;
  st->allocs++;
  if (st->fail_at > 0 && st->allocs == st->fail_at) {
    st->fired = true;
#ifdef SIM_ASAN
    static const bool trace_faults = getenv("SIM_TRACE_FAULT") != nullptr;  // debugging aid: where does the failed allocation come from?
    if (trace_faults) __sanitizer_print_stack_trace();
#endif
    g.stats.alloc_faults++;
    g.fired.push_back({st->id, st->op, 1, st->fail_at, 0});
    return true;
  }
  return false;
}

}  // namespace sim

// =========================================================== seams ========
using sim::g;
using sim::tls_self;

extern "C" {

void unodb_verif_point(int kind, const void* addr) noexcept {
  auto* st = tls_self;
  if (!st || !g.active || !st->in_sim || st->hooks_off) return;
  sim::HarnessScope hs;
  sim::do_point(st, kind, addr);
}

int unodb_verif_buggify(int site) noexcept {
  auto* st = tls_self;
  if (!st || !g.active || !st->in_sim || st->hooks_off) return 0;
  sim::HarnessScope hs;
  const int k = ++st->buggify_calls;
  if (g.explicit_sched || (g.c && g.c->knob("explicit_faults", 0))) {
    for (auto& e : st->buggify_at)
      if (e.first == k) {
        g.fired.push_back({st->id, st->op, 2, k, site});
        g.stats.buggify_fired[site & 7]++;
        return 1;
      }
    return 0;
  }
  if (!(g.buggify_mask & (1u << site)) || g.buggify_budget <= 0) return 0;
  if (!g.brng.chance(g.buggify_p)) return 0;
  g.buggify_budget--;
  g.fired.push_back({st->id, st->op, 2, k, site});
  g.stats.buggify_fired[site & 7]++;
  return 1;
}

void unodb_verif_probe(int probe) noexcept {
  auto* st = tls_self;
  if (!st || !g.active || !st->in_sim) return;
  sim::HarnessScope hs;
  g.stats.probes[probe & 15]++;
  g.run_probes[probe & 15]++;
  g.h.add(0xABCD0000u + static_cast<unsigned>(probe));
  if (g.tracing) g.trace.push_back("probe " + std::to_string(probe) + " t" + std::to_string(st->id));
}

int __wrap_posix_memalign(void** p, size_t al, size_t sz) {
  auto* st = tls_self;
  if (!st || !st->in_sim) return __real_posix_memalign(p, al, sz);
  if (sim::alloc_should_fail(st)) return ENOMEM;
  const int rc = __real_posix_memalign(p, al, sz);
  if (rc != 0 || !g.track) return rc;
  sim::HarnessScope hs;
  sim::Block b;
  b.addr = reinterpret_cast<uintptr_t>(*p);
  b.size = sz;
  b.seq = ++g.alloc_seq;
  b.thread = st->id;
  b.op = st->op;
  b.alloc_step = g.step;
  auto& slot = g.ledger[b.addr];
  slot = b;
  if (g.on_alloc) g.on_alloc(slot);
  if (g.active && st->hooks_off == 0) sim::do_point(st, sim::K_ALLOC, *p);
  return 0;
}

void __wrap_free(void* p) {
  auto* st = tls_self;
  if (p == nullptr) return;
  if (!st || !st->in_sim || g.ledger.empty()) return __real_free(p);
  auto it = g.ledger.find(reinterpret_cast<uintptr_t>(p));
  if (it == g.ledger.end()) return __real_free(p);
  sim::HarnessScope hs;
  sim::Block& b = it->second;
  if (b.state != 0)
    sim::die("double-free", "block #" + std::to_string(b.seq) + " freed again by t" + std::to_string(st->id) +
                                " (first by t" + std::to_string(b.free_thread) + ")");
  b.free_step = g.step;
  b.free_thread = st->id;
  if (g.on_free) g.on_free(b);
  if (g.active) {
    b.state = 1;
#ifdef SIM_ASAN
    __asan_poison_memory_region(p, b.size);
#else
    memset(p, 0xDD, b.size);
#endif
    if (st->hooks_off == 0) sim::do_point(st, sim::K_FREE, nullptr);
  } else {
    g.ledger.erase(it);
    __real_free(p);
  }
}

int __wrap_pthread_mutex_lock(pthread_mutex_t* m) {
  auto* st = tls_self;
  if (!st || !g.active || !st->in_sim || st->hooks_off) return __real_pthread_mutex_lock(m);
  sim::HarnessScope hs;
  while (true) {
    sim::do_point(st, sim::K_MUTEX_LOCK, nullptr);
    auto it = g.mutex_owner.find(m);
    if (it == g.mutex_owner.end()) {
      g.mutex_owner[m] = st->id;
      return __real_pthread_mutex_lock(m);
    }
    if (it->second == st->id) sim::die("mutex-left-locked", "a thread locks a mutex it already owns: an earlier call returned or threw with the lock held");
    st->state = sim::SimThread::BLOCKED_MUTEX;
    st->blocked_on = m;
    g.stats.mutex_blocks++;
    sim::yield_blocked(st, true);
  }
}

// try_lock never blocks: it fails when the simulator's owner table says somebody (a parked thread) holds the mutex
int __wrap_pthread_mutex_trylock(pthread_mutex_t* m) {
  auto* st = tls_self;
  if (!st || !g.active || !st->in_sim || st->hooks_off) return __real_pthread_mutex_trylock(m);
  sim::HarnessScope hs;
  sim::do_point(st, sim::K_MUTEX_LOCK, nullptr);
  if (g.mutex_owner.find(m) != g.mutex_owner.end()) return EBUSY;
  const int rc = __real_pthread_mutex_trylock(m);
  if (rc == 0) g.mutex_owner[m] = st->id;
  return rc;
}

int __wrap_pthread_mutex_unlock(pthread_mutex_t* m) {
  auto* st = tls_self;
  if (!st || !g.active || !st->in_sim || st->hooks_off) {
    if (st && st->in_sim) g.mutex_owner.erase(m);
    return __real_pthread_mutex_unlock(m);
  }
  sim::HarnessScope hs;
  if (g.on_mutex_unlock) g.on_mutex_unlock();
  const int rc = __real_pthread_mutex_unlock(m);
  g.mutex_owner.erase(m);
  for (auto& t : g.threads)
    if (t->state == sim::SimThread::BLOCKED_MUTEX && t->blocked_on == m) {
      t->state = sim::SimThread::RUNNABLE;
      t->blocked_on = nullptr;
    }
  sim::do_point(st, sim::K_MUTEX_UNLOCK, nullptr);
  return rc;
}

// libstdc++ precondition failure (-D_GLIBCXX_ASSERTIONS: span/vector/string index and range checks). Calls come from
// header code compiled into our objects, so the link-time wrap sees them; report what failed instead of a bare abort.
void __wrap__ZSt21__glibcxx_assert_failPKciS0_S0_(const char* file, int line, const char* func, const char* cond) {
  const char* base = file ? strrchr(file, '/') : nullptr;
  std::string fn(func ? func : "?");
  if (fn.size() > 160) fn = fn.substr(0, 160) + "...";
#ifdef SIM_ASAN
  __sanitizer_print_stack_trace();
#endif
  sim::die("stdlib-precondition", std::string(cond ? cond : "?") + " @ " + (base ? base + 1 : (file ? file : "?")) + ":" + std::to_string(line) + " " + fn);
}

void __assert_fail(const char* expr, const char* file, unsigned line, const char* func) noexcept(true) {
  if (sim::tls_assert_jmp != nullptr) {
    jmp_buf* jb = sim::tls_assert_jmp;
    sim::tls_assert_jmp = nullptr;
    longjmp(*jb, 1);
  }
  const char* base = strrchr(file, '/');
  std::string fn(func);
  if (fn.size() > 120) fn = fn.substr(0, 120) + "...";
  sim::die("assert", std::string(expr) + " @ " + (base ? base + 1 : file) + ":" + std::to_string(line) + " " + fn);
}

#ifdef SIM_ASAN
__attribute__((used, visibility("default"))) const char* __asan_default_options() {
  return "exitcode=77:detect_leaks=0:allocator_may_return_null=1:detect_stack_use_after_return=0:"
         "handle_abort=0:abort_on_error=0:print_summary=1";
}
#endif
__attribute__((used, visibility("default"))) const char* __ubsan_default_options() {
  return "halt_on_error=1:exitcode=78:print_stacktrace=0";
}

}  // extern "C"

// Harness-owned global operator new/delete: allocation-failure injection and
// nothing else (no shared state: they are also called from unsupervised
// thread start-up/tear-down code).
void* operator new(std::size_t n) {
  if (sim::tls_self != nullptr && sim::tls_self->armed && sim::tls_self->count_new && sim::tls_self->in_sim &&
      sim::alloc_should_fail(sim::tls_self))
    throw std::bad_alloc{};
  void* p = malloc(n ? n : 1);
  if (!p) throw std::bad_alloc{};
  return p;
}
void* operator new[](std::size_t n) { return operator new(n); }
void* operator new(std::size_t n, const std::nothrow_t&) noexcept { return malloc(n ? n : 1); }
void* operator new[](std::size_t n, const std::nothrow_t&) noexcept { return malloc(n ? n : 1); }
void* operator new(std::size_t n, std::align_val_t al) {
  void* p = nullptr;
  if (sim::tls_self != nullptr && sim::tls_self->armed && sim::tls_self->count_new && sim::tls_self->in_sim &&
      sim::alloc_should_fail(sim::tls_self))
    throw std::bad_alloc{};
  if (__real_posix_memalign(&p, static_cast<size_t>(al) < sizeof(void*) ? sizeof(void*) : static_cast<size_t>(al), n ? n : 1) != 0)
    throw std::bad_alloc{};
  return p;
}
void* operator new[](std::size_t n, std::align_val_t al) { return operator new(n, al); }
void operator delete(void* p) noexcept { __real_free(p); }
void operator delete[](void* p) noexcept { __real_free(p); }
void operator delete(void* p, std::size_t) noexcept { __real_free(p); }
void operator delete[](void* p, std::size_t) noexcept { __real_free(p); }
void operator delete(void* p, std::align_val_t) noexcept { __real_free(p); }
void operator delete[](void* p, std::align_val_t) noexcept { __real_free(p); }
void operator delete(void* p, std::size_t, std::align_val_t) noexcept { __real_free(p); }
void operator delete[](void* p, std::size_t, std::align_val_t) noexcept { __real_free(p); }
void operator delete(void* p, const std::nothrow_t&) noexcept { __real_free(p); }
void operator delete[](void* p, const std::nothrow_t&) noexcept { __real_free(p); }
