#!/usr/bin/env python3
"""Regenerates MANIFEST.json from the table below (kept next to ./check so both stay in step)."""
import json, os, subprocess
ROOT = os.path.dirname(os.path.abspath(__file__))
HOOK_COMMITS = ["e7bc9c5", "f6269f5", "2435480", "75d319d"]
SC = "Sequentially consistent interleavings at the granularity of hooked accesses (hand-placed hooks, plus a scheduling point inserted by the compiler at every atomic operation in the hookall build job) only; plain/SIMD reads are atomic w.r.t. the scheduler; no physical block reuse inside a run; sampling, not proof."
CLAIMED = {
 "C01": dict(engine="seqsim", level="exploration", design="DESIGN.md §6 C01",
   text="Seeded histories (20-400 operations: insert/remove/get/empty/clear, duplicates and absent removes, value lengths 0-5000) on db, mutex_db and olc_db x {uint64, byte-string keys} are executed "
        "operation by operation next to a std::map model; every result is compared, earlier value views are re-read after every later call, and the allocation ledger + ASan poison flag a premature free. "
        "mutex_db/olc_db histories are issued from 2-3 simulated threads with quiescent states, pause/resume and thread exit between calls, so deferred reclamation really frees nodes at varying points. "
        "For plain db the simulator degenerates to a seeded model-based run (no schedule dimension). One get in five is preceded by a look / modify / look / modify back / look sequence on the same key in straight-line code through a non-inlined scalar helper (what the compiler may assume about a lookup - purity attributes - decides whether the lookups are merged). Histories passing through non-representable byte-string key sets are the known finding D1.",
   note="Key sets come from seeded shapes (1-4 branching positions, alphabets straddling node-class boundaries, dense ranges, sparse keys; byte-string keys up to 24 bytes incl. deep shapes that branch beyond byte 8, kept representable step by step with the reference radix tree); oracle = std::map. " + SC,
   technique="deterministic simulation: seeded operation histories across simulated threads, checked against a map model + allocation ledger"),
 "C02": dict(engine="seqsim", level="exploration", design="DESIGN.md §6 C02",
   text="C01-style histories with scan, scan_from and scan_range (both directions, halt after 1-6 visits or at any position up to past the end) interleaved; bounds are stored keys, their neighbours, keys leaving the tree at every depth, 0 and max, and for byte-string keys also bounds of other lengths than the stored keys (proper prefixes, extensions); "
        "caller-side bound buffers are exact-size heap blocks placed in both address orders, and prefix-related bounds also as two views into one buffer; the visited (key, value) sequence must equal the model's range exactly and the visitor must not be called after returning true.",
   note="Byte-string key sets are restricted to representable ones (D1 is owned by C01). " + SC,
   technique="deterministic simulation: seeded histories with scans, exact comparison with the ordered-map model"),
 "C03": dict(engine="olcsim", level="exploration", design="DESIGN.md §6 C03",
   text="2-4 QSBR-registered simulated threads x 1-4 get/insert/remove on a real olc_db prefilled to a structural boundary (leaf split, prefix split, growth/shrink at 4/16/48, collapse with leaf or inner-node survivor, "
        "root transitions); every lock-word and protected-field access is a scheduling point; histories stamped with the scheduler's step counter are checked per key with a Wing-Gong linearizability search; "
        "a post-run single-threaded sweep must agree with an admissible final state. Schedules: sequential (both thread orders), preemption-bounded (1-3), conflict-directed (preempt next to an access of a location another thread writes, recorded on the sequential schedules), PCT, random walk, round robin; plus a systematic job: scenario templates (a structural change, a writer next to or below it, a reader below it) each run under a grid of ~4000 double preemptions.",
   note="32 schedules per program; <= 4 threads, <= 16 concurrent operations, trees <= ~60 keys. " + SC,
   technique="deterministic simulation: seeded scheduler over parked OS threads + per-key linearizability checking"),
 "C04": dict(engine="olcsim", level="exploration", design="DESIGN.md §6 C04",
   text="C03/C09 workloads where readers and scanners keep the value views they received and re-read them (each re-read a scheduling point) until their own next quiescent state; quiescent states after every "
        "operation, every second one or only at thread exit; thread exit with pending requests, qsbr_pause()+qsbr_resume() between operations and a qsbr_thread started by a running thread happen inside the run. Oracles: every hooked access must hit a live ledger block, ASan poison on logically freed "
        "blocks for un-hooked accesses, held views unchanged, reachable nodes touched by the sweep, ledger empty and nothing freed twice after drain and destruction.",
   note="Logical free (no address reuse within a run). " + SC,
   technique="deterministic simulation: seeded scheduler + allocation ledger with logical free/poison + held-view monitor"),
 "C05": dict(engine="qsbrsim", level="exploration", design="DESIGN.md §6 C05",
   text="Abstract QSBR programs (publish, take reference to a linked object, touch, drop, unlink+on_next_epoch_deallocate, quiescent, pause+resume, spawn qsbr_thread, exit) of 2-4 threads over the real QSBR; "
        "every atomic step inside register/unregister/quiescent/orphan hand-over is a scheduling point and weak-CAS sites fail spuriously (buggify). A monitor checks at every free that each other thread "
        "registered at the time of the request has since been inside quiescent/pause/exit, and that nobody holds a reference taken while the object was linked. A separate full-speed probe (-O2 build) stalls a reader that holds a reference while another thread goes through 2^32 quiescent states (width of the per-epoch counters). Besides random programs: role templates (stayer, reader keeping a reference, writer that retires and leaves, late leaver, threads that start out paused) and rounds templates run under a lockstep strategy (operation k of every thread before operation k+1 of any, plus preemptions) so that several epochs really pass with all threads in step.",
   note="<= 4 threads + 1 spawned child, <= 8 objects; probes show the 'impossible to get deterministically' branches of qsbr.cpp are taken. " + SC,
   technique="deterministic simulation: seeded scheduler + buggify + QSBR monitor over call/return stamps"),
 "C06": dict(engine="qsbrsim", level="exploration", design="DESIGN.md §6 C06",
   text="C05 programs followed by a drain: three rounds in which every still-registered thread quiesces once (order and interleaving inside a round chosen by the scheduler), threads that pause or exit holding "
        "requests at any point of an epoch change, then the 'all but one unregistered, two quiescent states' tail. Ledger: each retired block freed exactly once, freed by the end of the third round, nothing "
        "pending after the tail; the registered-thread count is compared with the program's count whenever no start/exit/pause/resume is in flight. Rounds templates under the lockstep strategy make several threads hand over aged (previous-interval) requests around one and the same epoch change.",
   note="The three-round bound is checked on rounds that start after every request; " + SC,
   technique="deterministic simulation: seeded scheduler + allocation ledger + thread-count model"),
 "C07": dict(engine="locksim", level="exploration", design="DESIGN.md §6 C07",
   text="Seeded search over interleavings of 2-3 threads on one real unodb::optimistic_lock guarding three protected fields; every lock-word and protected-field access is a scheduling point; "
        "recorded call/return stamps are checked against a lock monitor (writer exclusion, validated sections never provably overlap a write-locked period and see only completed writers' "
        "values, upgrades not after another writer, obsolete final); sections move-assigned between objects as the tree's descent loops do; in assertion builds the count of open read sections must be zero at the end. "
        "A separate full-speed probe (-O2 build, hooks off) keeps a section open across 2^30 (thorough: up to 2^33) complete write cycles and requires its check and upgrade to fail (width of the version arithmetic).",
   note="Assumes the hook placement in optimistic_lock.hpp covers every access of the lock word and of in_critical_section fields. " + SC,
   technique="deterministic simulation: seeded scheduler over parked OS threads + lock monitor over the recorded history"),
 "C08": dict(engine="seqsim", level="fault_enumeration", design="DESIGN.md §6 C08",
   text="For every insert and remove of generated histories (three index classes, OLC under one registered thread, both key kinds), and for qsbr_resume, qsbr_thread start and on_next_epoch_deallocate at the "
        "QSBR API: fail allocation k for k = 1, 2, ... until the operation completes, so every allocation point is failed exactly once without hard-coded counts; plus over-long key/value length errors. "
        "After each failure: exception type, all entries readable with equal bytes, full scan, every statistics getter, live-allocation set and QSBR getters (incl. the thread's current-interval deallocation size) unchanged; the un-faulted repeat returns the model's "
        "result; hooks stay active so a lock left held is reported at the next operation.",
   note="Allocation failure delivered through the --wrap=posix_memalign seam and the harness' operator new; histories <= 120 operations.",
   technique="deterministic simulation: exhaustive allocation-failure enumeration per operation through link-time seams"),
 "C09": dict(engine="olcsim", level="exploration", design="DESIGN.md §6 C09",
   text="One or two scanner threads (scan, scan_from, scan_range, both directions, optional halt) against one to three writers restructuring nodes on the scanner's path in two- and three-level trees (uint64 keys, fixed- and variable-length byte-string keys, bounds of other lengths than the stored keys); "
        "the scan oracle uses call/return stamps of writers and per-visit stamps: strictly monotone keys inside the interval, each value one its key could have held between the scan's call and the visit, "
        "every key provably present throughout delivered exactly once, no value provably removed before the scan began.",
   note="All judgements conservative (an interval overlaps unless the stamps prove otherwise). " + SC,
   technique="deterministic simulation: seeded scheduler + interval-based concurrent-scan oracle"),
 "C10": dict(engine="seqsim", level="exploration", design="DESIGN.md §6 C10",
   text="After every operation of C01-style histories (failed/duplicate operations and clear included) on the three classes: leaf count = entries, inner nodes per class = those of the reference path-compressed "
        "radix tree of the key set, reported memory = bytes of live ledger blocks and block count = node count, zero when empty, growth/shrink counters monotone and moving by exactly one iff the reference tree "
        "gains, loses or re-classes an inner node; ledger empty after destruction. Also after olcsim concurrent phases once all threads have quiesced and drained.",
   note="Representable key sets only; statistics-enabled builds. " + SC,
   technique="deterministic simulation: seeded histories checked against a reference radix-tree shape model and the allocation ledger"),
 "C13": dict(engine="mutexsim", level="exploration", design="DESIGN.md §6 C13",
   text="2-8 plain simulated threads x 1-5 operations (get/insert/remove/empty/clear/scans/dump/statistics getters; values of 0-32 bytes; at most 22 per history) on one mutex_db<uint64> or mutex_db<key_view> over small key pools; scheduling points at every wrapped mutex call, every in_fake_critical_section access and "
        "allocation notification inside the tree, and while a get handle is held; allocation failures are injected into inserts and removes (a failed operation must have no effect and must not leave the mutex held). The mutex is simulated as a blocking resource. Whole-history linearizability against a map with multi-key operations; owns_lock() == hit "
        "and the simulator's owner table after every call; held values re-read while writers queue; ledger flags a leaf freed under a held handle; statistics getters must report a state the index had between two operations (sampled at every release of the index mutex); deadlock detection; try_lock is simulated as well.",
   note="<= 22 operations per history; the quantifier's free-running threads are replaced by schedules the simulator decides. " + SC,
   technique="deterministic simulation: seeded scheduler with simulated mutex blocking + whole-map linearizability checking"),
 "C14": dict(engine="olcsim", level="exploration", design="DESIGN.md §6 C14",
   text="Every C03/C09-style run continues under a fair tail until all operations return (step budget; lone spin = deadlock report), with allocation failures injected into inserts; afterwards a single-threaded sweep "
        "with hooks active (get of every key, full scans both ways, insert+remove probes next to keys) must terminate and agree with an admissible final state.",
   note="No oracle mentions time or a particular winner; budget 400k scheduler steps per run. " + SC,
   technique="deterministic simulation: seeded scheduler with deadlock/livelock detection + allocation-failure injection + post-run sweep"),
 "C16": dict(engine="seqsim", level="exploration", design="DESIGN.md §6 C16",
   text="The same seeds of C01/C02-style histories (uint64 keys, byte-string keys <= 8 bytes; olc_db histories with scans followed by removals issued across simulated threads) run in {AVX2, SSE4.1} x {stats on, off} x "
        "{assertions on, NDEBUG} x {PAUSE, EMPTY} builds (quick: a pairwise-covering subset of 6; thorough: all 16); per-seed hashes of the result/scan trace must agree across all builds and the counter hashes across "
        "the statistics builds; every build is also model-checked by itself (including the straight-line look / modify / look sequences of C01, which only optimised builds can get wrong) and assertion failures are reported with the configuration named.",
   note="Matrix builds are g++ -O2 without sanitizers; memory-use counters are excluded from the cross-build hash (node sizes legitimately differ).",
   technique="deterministic simulation: identical seeded executions replayed across build configurations, differential + model oracle"),
 "C17": dict(engine="ptrsim", level="exploration", design="DESIGN.md §6 C17",
   text="An interpreter over qsbr_ptr<std::byte> / qsbr_ptr_span<std::byte> slots and qsbr_ptr<uint32_t> / qsbr_ptr_span<uint32_t> (sizes and arithmetic in elements, not bytes) (construct, default, copy, move, copy-/move-assign, ++ -- += -= + -, difference, comparisons, dereference/index/write, destroy) on 2-3 QSBR threads, "
        "each step mirrored on a raw-pointer shadow; probes call quiescent()/qsbr_pause() under setjmp with the harness' __assert_fail jumping back: in assertion builds a probe must be rejected iff the probing thread's "
        "shadow multiset of live non-null wrappers is non-empty; any other assertion is a violation; null wrappers (default-constructed, moved-from) are copied, assigned and destroyed while the thread is paused. One program in 16 first runs an allocation-failure probe in a forked child (a wrapper operation with allocation #1-#3 inside it failing: it must not complete - std::terminate - or the wrapper must still be tracked). NDEBUG builds check the equivalence half.",
   note="The schedule dimension is thin (per-thread registries; switches at operation boundaries).",
   technique="deterministic simulation: seeded interpreter with raw-pointer shadow model and assertion-intercepting liveness probes"),
}
NOT_YET = {}
NA = {
 "C11": "pure function of two input values: no schedule, fault, clock or shared state for a simulator to own (DESIGN.md §7)",
 "C12": "pure function of the input sequence; the encoder's buffer growth is deterministic and single-threaded (DESIGN.md §7)",
 "C15": "pure function of input pairs; nothing to simulate (DESIGN.md §7)",
}
def main():
    props = [json.loads(l)["id"] for l in open(os.path.join(ROOT, "properties.jsonl"))]
    checks = []
    for pid in props:
        if pid in CLAIMED:
            c = CLAIMED[pid]
            checks.append(dict(property_id=pid, quick_cmd="./check %s --tier quick" % pid, thorough_cmd="./check %s --tier thorough" % pid,
                               evidence_file="/verif/evidence/%s.json" % pid, replay_cmd_template="./check replay {path}", engine=c["engine"],
                               level_claimed=dict(category=c["level"], text=c["text"], design_ref=c["design"]), level_note=c["note"], technique=c["technique"]))
    na = [dict(property_id=p, reason=r) for p, r in NA.items()]
    for pid in props:
        if pid not in CLAIMED and pid not in NA:
            na.append(dict(property_id=pid, reason="check not built yet in this revision of /verif (engine under construction; see DESIGN.md §6)"))
    engines = {}
    for pid, c in CLAIMED.items():
        engines.setdefault(c["engine"], []).append(pid)
    man = dict(version=1,
      setup_cmd="./check build asan-ndebug asan-debug asan-debug-nostats hookall-ndebug hookall-debug",
      hooks=dict(guard="UNODB_DETAIL_VERIF_HOOKS", enable="./check compiles /repo's headers and qsbr.cpp/qsbr_ptr.cpp/art_internal.cpp directly with -DUNODB_DETAIL_VERIF_HOOKS (no CMake); "
                 "the harness defines unodb_verif_point/unodb_verif_buggify/unodb_verif_probe", baseline_off_cmd="./check baseline-off", source_commits=HOOK_COMMITS, add_only=True),
      engines=[dict(name=e, path="/verif/sim", serves_properties=sorted(p), kind_free_text="deterministic simulation engine inside the sim binary (./check builds it per configuration)") for e, p in sorted(engines.items())],
      checks=checks, not_applicable=na,
      notes="All checks: ./check <id> --tier quick|thorough, honouring VERIF_SEED. Violations are gated (same seed twice, minimise, fresh-process replay) before a VIOLATION line is printed; "
            "known findings are listed in /verif/known_findings.json.")
    json.dump(man, open(os.path.join(ROOT, "MANIFEST.json"), "w"), indent=1)
if __name__ == "__main__":
    main()
