#!/usr/bin/env python3
"""Regenerates MANIFEST.json from the table below (kept next to ./check so both stay in step)."""
import json, os, subprocess
ROOT = os.path.dirname(os.path.abspath(__file__))
HOOK_COMMITS = ["e7bc9c5", "f6269f5", "2435480"]
CLAIMED = {
 "C07": dict(engine="locksim", level="exploration", design="DESIGN.md §6 C07",
   text="Seeded search over interleavings of 2-3 threads on one real unodb::optimistic_lock guarding three protected fields; every lock-word and protected-field access is a scheduling point; "
        "recorded call/return stamps are checked against a lock monitor (writer exclusion, validated sections never provably overlap a write-locked period and see only completed writers' "
        "values, upgrades not after another writer, obsolete final). Sampling over schedules (sequential, preemption-bounded, PCT, random walk, round-robin), not exhaustive.",
   note="Sequentially consistent interleavings only; assumes the hook placement in optimistic_lock.hpp covers every access of the lock word and of in_critical_section fields.",
   technique="deterministic simulation: seeded scheduler over parked OS threads + lock monitor over the recorded history"),
}
NOT_YET = {}
NA = {
 "C11": "pure function of two input values: no schedule, fault, clock or shared state for a simulator to own (DESIGN.md §7)",
 "C12": "pure function of the input sequence; the encoder's buffer growth is deterministic and single-threaded (DESIGN.md §7)",
 "C15": "pure function of input pairs; nothing to simulate (DESIGN.md §7)",
}
def main():
    props = [json.loads(l)["id"] for l in open(os.path.join(ROOT, "properties.jsonl"))]
    checks = []
    for pid in props:
        if pid in CLAIMED:
            c = CLAIMED[pid]
            checks.append(dict(property_id=pid, quick_cmd="./check %s --tier quick" % pid, thorough_cmd="./check %s --tier thorough" % pid,
                               evidence_file="/verif/evidence/%s.json" % pid, replay_cmd_template="./check replay {path}", engine=c["engine"],
                               level_claimed=dict(category=c["level"], text=c["text"], design_ref=c["design"]), level_note=c["note"], technique=c["technique"]))
    na = [dict(property_id=p, reason=r) for p, r in NA.items()]
    for pid in props:
        if pid not in CLAIMED and pid not in NA:
            na.append(dict(property_id=pid, reason="check not built yet in this revision of /verif (engine under construction; see DESIGN.md §6)"))
    engines = {}
    for pid, c in CLAIMED.items():
        engines.setdefault(c["engine"], []).append(pid)
    man = dict(version=1,
      setup_cmd="./check build asan-ndebug asan-debug",
      hooks=dict(guard="UNODB_DETAIL_VERIF_HOOKS", enable="./check compiles /repo's headers and qsbr.cpp/qsbr_ptr.cpp/art_internal.cpp directly with -DUNODB_DETAIL_VERIF_HOOKS (no CMake); "
                 "the harness defines unodb_verif_point/unodb_verif_buggify/unodb_verif_probe", baseline_off_cmd="./check baseline-off", source_commits=HOOK_COMMITS, add_only=True),
      engines=[dict(name=e, path="/verif/sim", serves_properties=sorted(p), kind_free_text="deterministic simulation engine inside the sim binary (./check builds it per configuration)") for e, p in sorted(engines.items())],
      checks=checks, not_applicable=na,
      notes="All checks: ./check <id> --tier quick|thorough, honouring VERIF_SEED. Violations are gated (same seed twice, minimise, fresh-process replay) before a VIOLATION line is printed; "
            "known findings are listed in /verif/known_findings.json.")
    json.dump(man, open(os.path.join(ROOT, "MANIFEST.json"), "w"), indent=1)
if __name__ == "__main__":
    main()
