#!/bin/sh
# usage: tools/mkwt.sh <name>   -> scratch git worktree of /repo at /tmp/wt-<name>, configured like the pinned baseline
set -e
W=/tmp/wt-$1
git -C /repo worktree add --detach "$W" HEAD >/dev/null 2>&1
mkdir -p "$W/3rd_party/googletest"
cp -r /repo/3rd_party/googletest/. "$W/3rd_party/googletest/"
cmake -G Ninja -S "$W" -B "$W/_build" -DCMAKE_BUILD_TYPE=RelWithDebInfo -DCMAKE_CXX_FLAGS=-Wno-error -DSTANDALONE=OFF -DTESTS=ON -DBENCHMARKS=OFF -DCPPCHECK_EXE=CPPCHECK_EXE-NOTFOUND >/dev/null
echo "$W"
