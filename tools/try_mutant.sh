#!/bin/sh
# usage: tools/try_mutant.sh <patch.diff> <property> [property ...]
# Applies a patch to a scratch copy of /repo's sources and runs the quick checks against that copy.
# Evidence and replay files go to a scratch directory, so the committed evidence is left alone.
set -e
PATCH=$(readlink -f "$1"); shift
NAME=$(basename $(dirname "$PATCH"))
S=/tmp/mutrepo-$NAME-$$
rm -rf "$S"; mkdir -p "$S/src" "$S/evidence" "$S/replays"
cp /repo/*.hpp /repo/*.cpp "$S/src/"
(cd "$S/src" && git init -q . && git add -A >/dev/null && git -c user.email=x -c user.name=x commit -q -m base && git apply --whitespace=nowarn "$PATCH") || { echo "PATCH DOES NOT APPLY"; rm -rf "$S"; exit 3; }
cd ${VERIF_DIR:-/verif}
RC=0
for P in "$@"; do
  VERIF_REPO="$S/src" VERIF_EVID_DIR="$S/evidence" VERIF_REPLAY_DIR="$S/replays" ./check "$P" --tier ${TIER:-quick} 2>&1 | grep -E "VIOLATION|class=|KNOWN|runs,|GATE|INFRA|BUILD|error" | cut -c1-400 || true
done
rm -rf "$S"
