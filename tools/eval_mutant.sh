#!/bin/sh
# usage: tools/eval_mutant.sh <dir with patch.diff demo.cpp build.sh> <property> [property ...]
# 1. fresh scratch worktree of /repo HEAD + patch: build, pinned ctest line (twice)
# 2. demonstration against the patched worktree (expect exit 1) and against /repo (expect exit 0)
# 3. the quick checks of the named properties against a patched scratch copy of the sources
# Everything scratch is removed afterwards.
D=$(readlink -f "$1"); shift
ID=ev$$
cd ${VERIF_DIR:-/verif}
W=$(tools/mkwt.sh $ID 2>/dev/null | tail -1)
if ! git -C "$W" apply --whitespace=nowarn "$D/patch.diff"; then echo "EVAL patch: DOES NOT APPLY"; tools/rmwt.sh $ID; exit 3; fi
echo "EVAL files: $(git -C "$W" diff --stat | tail -1)"
if cmake --build "$W/_build" -j${J:-12} >/tmp/eval-build-$ID.log 2>&1; then echo "EVAL build: ok"; else echo "EVAL build: FAILED"; grep -E "error:" /tmp/eval-build-$ID.log | head -5; fi
for i in 1 2; do echo "EVAL ctest#$i: $(ctest --test-dir "$W/_build" -j8 --timeout 900 2>&1 | grep -E "tests passed|tests failed" | head -1)"; done
rm -f /tmp/eval-build-$ID.log
T=/tmp/eval-demo-$ID; rm -rf $T; mkdir -p $T/with $T/without
for f in "$D"/*; do case "$(basename "$f")" in patch.diff|README.md|meta.json|_*) ;; *) [ -f "$f" ] && cp "$f" $T/with/ ;; esac; done; cp -r $T/with/. $T/without/
(cd $T/with && UNODB_ROOT=$W OUT=$T/with/demo timeout 600 bash ./build.sh >$T/with.log 2>&1; echo "EVAL demo with change: exit $? ($(tail -1 $T/with.log | cut -c1-160))")
(cd $T/without && UNODB_ROOT=/repo OUT=$T/without/demo timeout 600 bash ./build.sh >$T/without.log 2>&1; echo "EVAL demo without change: exit $? ($(tail -1 $T/without.log | cut -c1-160))")
rm -rf $T
tools/rmwt.sh $ID
for P in "$@"; do
  echo "EVAL check $P:"
  tools/try_mutant.sh "$D/patch.diff" $P 2>&1 | sed 's/^/    /'
done
