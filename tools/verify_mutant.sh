#!/bin/sh
# usage: tools/verify_mutant.sh <id> <dir with patch.diff>
# Fresh scratch worktree of /repo HEAD, apply the patch, build, run the pinned ctest line. Leaves
# /tmp/wt-v-<id> (patched) in place for running the demonstration; remove with tools/rmwt.sh v-<id>.
set -e
ID=$1; D=$(readlink -f "$2")
tools/rmwt.sh v-$ID >/dev/null 2>&1 || true
W=$(tools/mkwt.sh v-$ID 2>/dev/null | tail -1)
git -C "$W" apply --whitespace=nowarn "$D/patch.diff" || { echo "PATCH DOES NOT APPLY to HEAD"; exit 3; }
cmake --build "$W/_build" -j16 2>&1 | grep -E "error:|FAILED:" | grep -v internalAstError | head -5 || true
ctest --test-dir "$W/_build" -j8 --timeout 900 2>&1 | tail -3
echo "patched worktree: $W"
