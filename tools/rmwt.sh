#!/bin/sh
# usage: tools/rmwt.sh <name>
git -C /repo worktree remove --force /tmp/wt-$1 2>/dev/null || rm -rf /tmp/wt-$1
git -C /repo worktree prune
