#!/usr/bin/env python3
"""usage: tools/import_mutant.py <src dir> <id> <property> <change> <needs> <detected_by json> [eval log]
Copies patch.diff, demo.cpp, build.sh, README.md of a confirmed mutant into seeded/<id>/ and writes meta.json."""
import json, os, shutil, subprocess, sys
src, mid, prop, change, needs, det = sys.argv[1:7]
log = sys.argv[7] if len(sys.argv) > 7 else None
root = os.path.dirname(os.path.dirname(os.path.abspath(__file__)))
dst = os.path.join(root, "seeded", mid)
os.makedirs(dst, exist_ok=True)
for f in os.listdir(src):
    if os.path.isfile(os.path.join(src, f)) and not f.startswith("_") and (f in ("patch.diff", "build.sh", "README.md") or f.endswith((".h", ".hpp", ".cpp"))):
        shutil.copy(os.path.join(src, f), os.path.join(dst, f))
head = subprocess.run(["git", "-C", "/repo", "rev-parse", "--short", "HEAD"], capture_output=True, text=True).stdout.strip()
confirmed = {"applies_to": "/repo HEAD " + head}
if log and os.path.exists(log):
    for line in open(log):
        line = line.strip()
        if line.startswith("EVAL ctest#1:"): confirmed["ctest_with_change"] = line.split(":", 1)[1].strip() + " (twice; tools/eval_mutant.sh)"
        if line.startswith("EVAL demo with change:"): confirmed["demo_with_change"] = line.split(":", 1)[1].strip()
        if line.startswith("EVAL demo without change:"): confirmed["demo_without_change"] = line.split(":", 1)[1].strip()
meta = {"id": mid, "breaks_property": prop, "author": "independent sub-agent, round %s (given only the property text%s and a scratch worktree)" % (os.environ.get("ROUND", "2"), ", the list of changes already proposed" if os.environ.get("ROUND", "2") != "2" else ""),
        "change": change, "needs_to_manifest": needs, "confirmed": confirmed,
        "checks_run": "tools/eval_mutant.sh <dir> " + " ".join(sorted(json.loads(det).keys())), "detected_by": json.loads(det)}
json.dump(meta, open(os.path.join(dst, "meta.json"), "w"), indent=1)
print("imported", dst)
